------------------------------ MODULE WireCodec ------------------------------
(* C07 — the constructor-accepted value space of every protocol component type and its byte image.

   For each component type this module states
     (a) which values the PUBLIC CONSTRUCTORS accept (transcribed from the constructors' assertions:
         TraceInfo::new_multi_segment, ProofOptions::new / with_partitions, Context::new,
         Commitments::new, Queries::new, OodFrame::set_*_states, BatchMerkleProof{nodes, depth},
         ByteDigest::new / ElementDigest::new; FriProof has no public constructor and is described
         by its byte grammar), and
     (b) the exact byte image of a value (little-endian fixed-width integers, vint64 sizes, canonical
         little-endian field elements, digests as the hasher defines them).
   The generator (MCWireCodec) enumerates every boundary of every field and prints, per value, a
   DESCRIPTION (what to hand to the real constructor) and the expected image as a list of chunks.
   The harness builds the value with the real constructor, serialises (must equal the image),
   deserialises (must succeed, leave no bytes, compare equal, re-serialise to the same bytes) and,
   where the type has a typed parser, parses (must return the described contents).

   Large payloads are described by closed-form patterns (PatByte / PatElem) instead of literal
   arrays; a pattern chunk says "n bytes, the i-th is PatByte(seed, i)". *)
EXTENDS Integers, Sequences, TLC, Bytes, BigNat, Vint

(***************************************************************************)
(* Patterns and chunks                                                     *)
(***************************************************************************)
PatByte(seed, i) == (i * 37 + seed * 11 + 91) % 256        \* i is 0-based
PatElem(seed, i) == (i * 7919 + seed * 10007 + 13) % 65521  \* a small integer: canonical in every field

Lit(b)              == [t |-> "lit",  b |-> b,    seed |-> 0,    n |-> Len(b), w |-> 0]
Pat(seed, n)        == [t |-> "pat",  b |-> <<>>, seed |-> seed, n |-> n,      w |-> 0]
\* n coordinates (base-field elements) of w bytes each; coordinate i is LE(PatElem(seed, i)) zero-padded
EPat(seed, n, w)    == [t |-> "epat", b |-> <<>>, seed |-> seed, n |-> n,      w |-> w]
\* n byte-digests of w bytes each; digest j is PatByte(seed + j, 0..w-1)
DPat(seed, n, w)    == [t |-> "dpat", b |-> <<>>, seed |-> seed, n |-> n,      w |-> w]

ChunkLen(ch) == CASE ch.t = "lit" -> Len(ch.b) [] ch.t = "pat" -> ch.n [] OTHER -> ch.n * ch.w
RECURSIVE ChunksLen(_)
ChunksLen(cs) == IF cs = <<>> THEN 0 ELSE ChunkLen(Head(cs)) + ChunksLen(Tail(cs))

VInt(n) == VEncode(BN(n))                                  \* vint64 image of a TLC integer

(***************************************************************************)
(* Fields and hashers                                                      *)
(***************************************************************************)
ModBytes(f) == CASE f = "f64"  -> <<1, 0, 0, 0, 255, 255, 255, 255>>
                 [] f = "f62"  -> <<1, 0, 0, 0, 128, 200, 255, 63>>
                 [] f = "f128" -> <<1, 0, 0, 0, 0, 211, 255, 255, 255, 255, 255, 255, 255, 255, 255, 255>>
EB(f) == IF f = "f128" THEN 16 ELSE 8                      \* bytes of a base-field element
MaxElem(f) == BSub(ModBytes(f), <<1>>)                     \* p - 1
Elem(f, v) == PadTo(v, EB(f))                              \* canonical image of the integer v < p
IsCanonical(f, v) == BLess(v, ModBytes(f))

\* hashers: byte digests are opaque byte strings; element digests are four field elements
ByteHashers == {"blake3_256", "blake3_192", "sha3_256"}
DigestLen(h) == CASE h = "blake3_192" -> 24 [] h = "rp62_248" -> 31 [] OTHER -> 32
HashField(h) == IF h = "rp62_248" THEN "f62" ELSE "f64"    \* field of the element hashers

BDig(b) == [k |-> "b", b |-> b, e |-> <<>>]                \* digest descriptions
EDig(e) == [k |-> "e", b |-> <<>>, e |-> e]

\* 4 x 62-bit values packed little-endian into 248 bits
Pack62(e) == PadTo(BAdd(BAdd(Trim(e[1]), BMul(Trim(e[2]), BPow2(62))),
                        BAdd(BMul(Trim(e[3]), BPow2(124)), BMul(Trim(e[4]), BPow2(186)))), 31)

DigestImage(h, d) ==
  IF d.k = "b" THEN d.b
  ELSE IF h = "rp62_248" THEN Pack62(d.e)
  ELSE PadTo(d.e[1], 8) \o PadTo(d.e[2], 8) \o PadTo(d.e[3], 8) \o PadTo(d.e[4], 8)

DigestOk(h, d) ==
  IF h \in ByteHashers THEN d.k = "b" /\ Len(d.b) = DigestLen(h) /\ IsBytes(d.b)
  ELSE d.k = "e" /\ Len(d.e) = 4 /\ \A i \in 1..4 : IsCanonical(HashField(h), d.e[i])

RECURSIVE DigestsImage(_, _)
DigestsImage(h, ds) == IF ds = <<>> THEN <<>> ELSE DigestImage(h, Head(ds)) \o DigestsImage(h, Tail(ds))

(***************************************************************************)
(* TraceInfo                                                               *)
(***************************************************************************)
\* description: [main, aux, rands, logn, mseed, mlen]; trace length = 2^logn; metadata = Pat(mseed, mlen)
TraceInfoOk(d) ==
  /\ d.logn >= 3 /\ d.logn <= 63                 \* length >= 8, a power of two, fits usize
  /\ d.mlen <= 65535
  /\ d.main >= 1
  /\ d.main + d.aux <= 255
  /\ (d.aux = 0 => d.rands = 0)
  /\ d.rands <= 255
TraceInfoImage(d) == <<Lit(<<d.main, d.aux, d.rands, d.logn>> \o LE(d.mlen, 2)), Pat(d.mseed, d.mlen)>>

(***************************************************************************)
(* ProofOptions                                                            *)
(***************************************************************************)
IsPow2(n) == \E k \in 0..16 : n = 2 ^ k
OptionsOk(o) ==
  /\ o.queries >= 1 /\ o.queries <= 255
  /\ IsPow2(o.blowup) /\ o.blowup >= 2 /\ o.blowup <= 128
  /\ o.grind >= 0 /\ o.grind <= 32
  /\ o.ext \in {1, 2, 3}
  /\ o.fold \in {2, 4, 8, 16}
  /\ IsPow2(o.rem + 1) /\ o.rem <= 255
  /\ o.cbatch \in {0, 1, 2} /\ o.dbatch \in {0, 1, 2}
  /\ o.parts >= 1 /\ o.parts <= 16
  /\ o.hrate >= 1 /\ o.hrate <= 255
OptionsBytes(o) == <<o.queries, o.blowup, o.grind, o.ext, o.fold, o.rem, o.cbatch, o.dbatch, o.parts, o.hrate>>

(***************************************************************************)
(* Context                                                                 *)
(***************************************************************************)
Log2(n) == CHOOSE k \in 0..16 : n = 2 ^ k
\* description: [ti, f, o, ncons] with ncons a little-endian BigNat
ContextOk(d) ==
  /\ TraceInfoOk(d.ti) /\ OptionsOk(d.o)
  /\ d.ti.logn <= 31                               \* trace length <= u32::MAX
  /\ d.ti.logn + Log2(d.o.blowup) <= 31            \* LDE domain size <= u32::MAX
  /\ ~BIsZero(d.ncons) /\ BLess(d.ncons, BPow2(32))
ContextImage(d) ==
  TraceInfoImage(d.ti)
    \o <<Lit(<<Len(ModBytes(d.f))>> \o ModBytes(d.f) \o OptionsBytes(d.o) \o VEncode(d.ncons))>>

(***************************************************************************)
(* Commitments: u16 byte count, then the digests back to back              *)
(***************************************************************************)
\* description: [trace |-> digests, cons |-> digest, fri |-> digests, pseed, pn]: pn extra pattern
\* byte-digests appended to the FRI roots (byte hashers only)
CommitmentsLen(h, d) == (Len(d.trace) + 1 + Len(d.fri) + d.pn) * DigestLen(h)
CommitmentsOk(h, d) ==
  /\ \A i \in 1..Len(d.trace) : DigestOk(h, d.trace[i])
  /\ DigestOk(h, d.cons)
  /\ \A i \in 1..Len(d.fri) : DigestOk(h, d.fri[i])
  /\ (d.pn > 0 => h \in ByteHashers)
  /\ CommitmentsLen(h, d) < 65535                    \* write_into asserts the byte count < u16::MAX
CommitmentsImage(h, d) ==
  <<Lit(LE(CommitmentsLen(h, d), 2) \o DigestsImage(h, d.trace) \o DigestImage(h, d.cons) \o DigestsImage(h, d.fri)),
    DPat(d.pseed, d.pn, DigestLen(h))>>

(***************************************************************************)
(* BatchMerkleProof: depth byte, vint vector count, per vector vint count + digests *)
(***************************************************************************)
\* description: [depth, nodes |-> sequence of digest sequences]
BmpOk(h, d) == /\ d.depth \in 0..255
               /\ \A i \in 1..Len(d.nodes) : \A j \in 1..Len(d.nodes[i]) : DigestOk(h, d.nodes[i][j])
RECURSIVE NodeVecs(_, _)
NodeVecs(h, vs) == IF vs = <<>> THEN <<>>
                   ELSE VInt(Len(Head(vs))) \o DigestsImage(h, Head(vs)) \o NodeVecs(h, Tail(vs))
BmpBytes(h, d) == <<d.depth>> \o VInt(Len(d.nodes)) \o NodeVecs(h, d.nodes)

(***************************************************************************)
(* Queries: vint-prefixed value bytes, vint-prefixed opening-proof bytes   *)
(***************************************************************************)
\* description: [bmp, rows, cols, x (extension degree), vseed]; element (r, c) has coordinates
\* PatElem(vseed, ((r * cols) + c) * x + j), j < x — or explicit rows in `lit` (each element = x coordinates)
QueriesOk(h, d) == /\ BmpOk(h, d.bmp) /\ d.rows >= 1 /\ d.cols >= 1
                   /\ (d.lit # <<>> => Len(d.lit) = d.rows * d.cols * d.x)
QueriesValueBytes(f, d) == d.rows * d.cols * d.x * EB(f)
RECURSIVE Coords(_, _)
Coords(f, cs) == IF cs = <<>> THEN <<>> ELSE Elem(f, Head(cs)) \o Coords(f, Tail(cs))
QueriesImage(f, h, d) ==
  LET pb == BmpBytes(h, d.bmp) IN
  <<Lit(VInt(QueriesValueBytes(f, d))),
    IF d.lit # <<>> THEN Lit(Coords(f, d.lit)) ELSE EPat(d.vseed, d.rows * d.cols * d.x, EB(f)),
    Lit(VInt(Len(pb)) \o pb)>>

(***************************************************************************)
(* OodFrame: two u16-prefixed blobs, each led by the frame-size byte 2     *)
(***************************************************************************)
\* description: [w (main + aux width), mw (main width), q (quotient columns), x, seed, dflt]
\* trace blob: 2 | current row (w elements) | next row; quotient blob: 2 | current (q) | next (q)
OodOk(f, d) == d.dflt \/ (d.w >= 1 /\ d.mw >= 1 /\ d.mw <= d.w /\ d.q >= 1
                          /\ 1 + 2 * d.w * d.x * EB(f) <= 65535 /\ 1 + 2 * d.q * d.x * EB(f) <= 65535)
OodImage(f, d) ==
  IF d.dflt THEN <<Lit(<<0, 0, 0, 0>>)>>
  ELSE <<Lit(LE(1 + 2 * d.w * d.x * EB(f), 2) \o <<2>>), EPat(d.seed, 2 * d.w * d.x, EB(f)),
         Lit(LE(1 + 2 * d.q * d.x * EB(f), 2) \o <<2>>), EPat(d.seed + 1, 2 * d.q * d.x, EB(f))>>

(***************************************************************************)
(* FriProof (byte grammar; no public constructor)                          *)
(***************************************************************************)
\* description: [layers |-> sequence of [vals, paths] byte strings, rem, parts]
FriOk(d) == /\ Len(d.layers) <= 255
            /\ \A i \in 1..Len(d.layers) : Len(d.layers[i].vals) >= 1    \* read_from refuses empty values
            /\ Len(d.rem) <= 65535 /\ d.parts \in 0..63   \* FriProof::new: a power-of-two partition count in usize
RECURSIVE FriLayersBytes(_)
FriLayersBytes(ls) == IF ls = <<>> THEN <<>>
                      ELSE LE(Len(Head(ls).vals), 4) \o Head(ls).vals \o LE(Len(Head(ls).paths), 4) \o Head(ls).paths
                           \o FriLayersBytes(Tail(ls))
FriBytes(d) == <<Len(d.layers)>> \o FriLayersBytes(d.layers) \o LE(Len(d.rem), 2) \o d.rem \o <<d.parts>>
=============================================================================
