SPECIFICATION Spec
CONSTANT Mode = "C04"
INVARIANT Progress
POSTCONDITION Accepted
CHECK_DEADLOCK FALSE
