SPECIFICATION Spec
CONSTANT Thorough = FALSE
INVARIANT Binds Emit
CHECK_DEADLOCK FALSE
