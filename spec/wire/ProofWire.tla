------------------------------ MODULE ProofWire ------------------------------
(* C04 / C05 — the byte grammar of a serialised `Proof`, the mutation operator family, and the header
   byte strings.

   INPUT (environment variable MAPS, ndjson, one record per honest proof, written by the harness):
       i     index of the case in WireCases!Cases (0-based)
       len   length of the proof in bytes
       map   the FIELD MAP: a sequence of [g, n, o, l, v]: group, field name, offset, length and, for
             integer fields, the decoded value (-1 for data fields).  The harness obtains it by walking
             the proof's own serialisation with the real reader.
   The field map is untrusted: `GrammarOk` re-derives, from the case alone (WireCases!Shape), the
   complete sequence of fields the grammar prescribes — names, order, widths, every length relation
   (u16 / u32 / vint length prefixes equal the length of what they announce, vint prefixes are
   minimal, digests are D bytes, tables are uq x width x element bytes, openings have depth
   log2(domain), FRI layers follow the folding schedule, the remainder has L / fold^layers
   coefficients) and that the fields tile [0, len) exactly.  A map that fails is a TOOL ERROR (the
   harness walker or this grammar is wrong, or the wire format changed), never a violation.

   OUTPUT (PrintT lines, one per mutation):  <<"MUT", json>> with
       c      case index, cls  operator name, fld  field name, grp  group,
       e      the byte edits (interpreted by the harness without any knowledge of fields):
                x # 0             xor the byte at offset o with mask x
                c = <<>>, x = 0   delete d bytes at o, insert the bytes b
                c = <<from, n>>   delete d bytes at o, insert a copy of original[from .. from+n) with the
                                  bytes at relative positions p[j][1] overwritten by p[j][2]
              (offsets refer to the original bytes; the sites of one mutation never overlap)
   The verdict rules (what an outcome may be) are in TraceWire.tla. *)
EXTENDS Integers, Sequences, TLC, Json, IOUtils, Bytes, BigNat, Vint, WireCases

Maps == ndJsonDeserialize(IOEnv.MAPS)

CONSTANTS Pairs,         \* BOOLEAN: also emit two-site mutations
          HeaderPairsFor  \* set of case indexes whose header bytes are also mutated two at a time

VARIABLE k              \* index into Maps

VInt(n) == VEncode(BN(n))
VIntLen(n) == Len(VInt(n))

(***************************************************************************)
(* Field kinds (by name)                                                   *)
(***************************************************************************)
U8Names  == {"ti.main", "ti.aux", "ti.rands", "ti.logn", "modlen", "opt.queries", "opt.blowup", "opt.grind",
             "opt.ext", "opt.fold", "opt.rem", "opt.cbatch", "opt.dbatch", "opt.parts", "opt.hrate", "uq",
             "bmp.depth", "ood.tfsz", "ood.qfsz", "fri.nlayers", "fri.parts"}
U16Names == {"ti.metalen", "com.len", "ood.tlen", "ood.qlen", "fri.remlen"}
U32Names == {"fl.vlen", "fl.plen"}
VNames   == {"ncons", "q.vlen", "q.plen", "bmp.ncnt", "bmp.vcnt"}
DataNames == {"ti.meta", "mod", "com.d", "q.vals", "bmp.nodes", "ood.tvals", "ood.qvals", "fl.vals", "fri.rem", "nonce"}
Kind(n) == CASE n \in U8Names -> "u8" [] n \in U16Names -> "u16" [] n \in U32Names -> "u32"
             [] n \in VNames -> "vint" [] OTHER -> "data"
IsInt(n) == n \notin DataNames
WidthOf(f) == CASE Kind(f.n) = "u8" -> 1 [] Kind(f.n) = "u16" -> 2 [] Kind(f.n) = "u32" -> 4
                [] Kind(f.n) = "vint" -> VIntLen(f.v) [] OTHER -> f.l

(***************************************************************************)
(* The grammar, as a recursive-descent recogniser over the field map.      *)
(* A recogniser takes the index of the next field and returns the index    *)
(* after what it recognised, or 0.                                         *)
(***************************************************************************)
\* field p of M is (g, n) with length l and value v (v = -2: any value)
Fx(M, p, g, n, l, v) ==
  IF p > 0 /\ p <= Len(M) /\ M[p].g = g /\ M[p].n = n /\ M[p].l = l /\ (v = -2 \/ M[p].v = v)
     /\ (IsInt(n) => M[p].l = WidthOf(M[p]))
    THEN p + 1 ELSE 0
At(M, p) == IF p > 0 /\ p <= Len(M) THEN M[p] ELSE [g |-> "", n |-> "", o |-> 0, l |-> 0, v |-> 0]

\* sum of the lengths of fields p .. q-1
RECURSIVE SumLen(_, _, _)
SumLen(M, p, q) == IF p >= q THEN 0 ELSE M[p].l + SumLen(M, p + 1, q)

RECURSIVE NodeVecs(_, _, _, _, _)
NodeVecs(M, p, g, D, n) ==
  IF n = 0 \/ p = 0 THEN p
  ELSE LET c == At(M, p).v
           p1 == Fx(M, p, g, "bmp.vcnt", VIntLen(c), -2)
       IN NodeVecs(M, Fx(M, p1, g, "bmp.nodes", c * D, -1), g, D, n - 1)

\* a batch Merkle proof of the given depth with at most maxvecs node vectors
Bmp(M, p, g, D, depth, maxvecs) ==
  LET p1 == Fx(M, p, g, "bmp.depth", 1, depth)
      n  == At(M, p1).v
      p2 == Fx(M, p1, g, "bmp.ncnt", VIntLen(n), -2)
  IN IF n < 1 \/ n > maxvecs THEN 0 ELSE NodeVecs(M, p2, g, D, n)

\* Queries: vint value-byte count, rows x width elements, vint proof-byte count, the proof
Queries(M, p, g, s, uq, width, ebytes) ==
  LET vb == uq * width * ebytes
      p1 == Fx(M, p, g, "q.vlen", VIntLen(vb), vb)
      p2 == Fx(M, p1, g, "q.vals", vb, -1)
      pl == At(M, p2).v
      p3 == Fx(M, p2, g, "q.plen", VIntLen(pl), -2)
      p4 == Bmp(M, p3, g, s.D, s.ldelog, uq)
  IN IF p4 # 0 /\ SumLen(M, p3, p4) = pl THEN p4 ELSE 0

RECURSIVE Digests(_, _, _, _)
Digests(M, p, D, n) == IF n = 0 \/ p = 0 THEN p ELSE Digests(M, Fx(M, p, "com", "com.d", D, -1), D, n - 1)

RECURSIVE OptBytes(_, _, _, _)
OptNames == <<"opt.queries", "opt.blowup", "opt.grind", "opt.ext", "opt.fold", "opt.rem", "opt.cbatch",
              "opt.dbatch", "opt.parts", "opt.hrate">>
OptBytes(M, p, s, j) == IF j > 10 \/ p = 0 THEN p ELSE OptBytes(M, Fx(M, p, "ctx", OptNames[j], 1, s.opt[j]), s, j + 1)

Group(j) == CASE j = 0 -> "fl0" [] j = 1 -> "fl1" [] j = 2 -> "fl2" [] j = 3 -> "fl3" [] j = 4 -> "fl4"
              [] j = 5 -> "fl5" [] j = 6 -> "fl6" [] j = 7 -> "fl7" [] OTHER -> "fl?"

\* FRI layer j (0-based): u32 value bytes (a whole number >= 1 of folded queries), u32 path bytes, proof
\* of depth log2(lde / fold^(j+1))
RECURSIVE FriLayersR(_, _, _, _, _)
FriLayersR(M, p, s, uq, j) ==
  IF j = s.layers \/ p = 0 THEN p
  ELSE LET g  == Group(j)
           vb == At(M, p).v
           qb == s.fold * s.ex
           p1 == Fx(M, p, g, "fl.vlen", 4, -2)
           p2 == Fx(M, p1, g, "fl.vals", vb, -1)
           pl == At(M, p2).v
           p3 == Fx(M, p2, g, "fl.plen", 4, -2)
           p4 == Bmp(M, p3, g, s.D, s.ldelog - (j + 1) * Log2(s.fold), uq)
       IN IF vb >= qb /\ vb % qb = 0 /\ vb \div qb <= uq /\ p4 # 0 /\ SumLen(M, p3, p4) = pl
            THEN FriLayersR(M, p4, s, uq, j + 1) ELSE 0

Proof(M, s, uq) ==
  LET a1 == Fx(M, 1, "ctx", "ti.main", 1, s.main)
      a2 == Fx(M, a1, "ctx", "ti.aux", 1, s.aux)
      a3 == Fx(M, a2, "ctx", "ti.rands", 1, s.rands)
      a4 == Fx(M, a3, "ctx", "ti.logn", 1, s.logn)
      a5 == Fx(M, a4, "ctx", "ti.metalen", 2, s.metalen)
      a6 == Fx(M, a5, "ctx", "ti.meta", s.metalen, -1)
      a7 == Fx(M, a6, "ctx", "modlen", 1, s.modlen)
      a8 == Fx(M, a7, "ctx", "mod", s.modlen, -1)
      a9 == OptBytes(M, a8, s, 1)
      nc == At(M, a9).v
      b1 == Fx(M, a9, "ctx", "ncons", VIntLen(nc), -2)
      b2 == Fx(M, b1, "uq", "uq", 1, uq)
      nd == s.segments + 1 + s.layers + 1
      b3 == Fx(M, b2, "com", "com.len", 2, nd * s.D)
      b4 == Digests(M, b3, s.D, nd)
      c1 == Queries(M, b4, "tq0", s, uq, s.main, s.eb)
      c2 == IF s.segments = 2 THEN Queries(M, c1, "tq1", s, uq, s.aux, s.ex) ELSE c1
      c3 == Queries(M, c2, "cq", s, uq, s.cc, s.ex)
      tb == 2 * (s.main + s.aux) * s.ex
      d1 == Fx(M, c3, "ood", "ood.tlen", 2, 1 + tb)
      d2 == Fx(M, d1, "ood", "ood.tfsz", 1, 2)
      d3 == Fx(M, d2, "ood", "ood.tvals", tb, -1)
      qb == 2 * s.cc * s.ex
      d4 == Fx(M, d3, "ood", "ood.qlen", 2, 1 + qb)
      d5 == Fx(M, d4, "ood", "ood.qfsz", 1, 2)
      d6 == Fx(M, d5, "ood", "ood.qvals", qb, -1)
      e1 == Fx(M, d6, "fri", "fri.nlayers", 1, s.layers)
      e2 == FriLayersR(M, e1, s, uq, 0)
      e3 == Fx(M, e2, "fri", "fri.remlen", 2, s.rem * s.ex)
      e4 == Fx(M, e3, "fri", "fri.rem", s.rem * s.ex, -1)
      e5 == Fx(M, e4, "fri", "fri.parts", 1, 0)
      e6 == Fx(M, e5, "nonce", "nonce", 8, -1)
  IN e6

\* the fields tile [0, len)
Tiles(M, len) == /\ Len(M) >= 1 /\ M[1].o = 0
                 /\ \A p \in 1..(Len(M) - 1) : M[p + 1].o = M[p].o + M[p].l
                 /\ M[Len(M)].o + M[Len(M)].l = len

MapOk(r) == LET s == Shape(Cases[r.i + 1]) IN
            /\ r.uq >= 1 /\ r.uq <= s.queries
            /\ Tiles(r.map, r.len)
            /\ Proof(r.map, s, r.uq) = Len(r.map) + 1

(***************************************************************************)
(* Mutation operators                                                      *)
(***************************************************************************)
\* (one record shape for all three, so that mutations form a TLC set)
Xor(o, m)         == [o |-> o, d |-> 0, b |-> <<>>, c |-> <<>>, p |-> <<>>, x |-> m]
Repl(o, d, b)     == [o |-> o, d |-> d, b |-> b,    c |-> <<>>, p |-> <<>>, x |-> 0]
Copy(o, d, c, p)  == [o |-> o, d |-> d, b |-> <<>>, c |-> c,    p |-> p,    x |-> 0]

EncInt(kind, v) == CASE kind = "u8" -> <<v>> [] kind = "u16" -> LE(v, 2) [] kind = "u32" -> LE(v, 4) [] OTHER -> VInt(v)
MaxOf(kind) == CASE kind = "u8" -> 255 [] kind = "u16" -> 65535 [] OTHER -> 2147483647
AllFF(kind) == CASE kind = "u8" -> <<255>> [] kind = "u16" -> <<255, 255>> [] kind = "u32" -> <<255, 255, 255, 255>>
                 [] OTHER -> <<0, 255, 255, 255, 255, 255, 255, 255, 255>>          \* vint image of 2^64 - 1

\* the k-byte vint image of v (any k >= minimal length, k <= 8), and the 9-byte image
VIntWide(v, kk) == PadTo(BMulInt(BAddInt(BMulInt(BN(v), 2), 1), 2 ^ (kk - 1)), kk)
VInt9(v) == <<0>> \o PadTo(BN(v), 8)

Mut(ci, cls, f, edits) == [c |-> ci, cls |-> cls, fld |-> f.n, grp |-> f.g, e |-> edits]

\* single-site operators on an integer field
IntMuts(ci, f) ==
  LET kd == Kind(f.n) IN
  {Mut(ci, "int.zero", f, <<Repl(f.o, f.l, EncInt(kd, 0))>>),
   Mut(ci, "int.max", f, <<Repl(f.o, f.l, AllFF(kd))>>),
   Mut(ci, "int.flip_lo", f, <<Xor(f.o, 1)>>),
   Mut(ci, "int.flip_hi", f, <<Xor(f.o + f.l - 1, 128)>>)}
  \cup (IF f.v < MaxOf(kd) THEN {Mut(ci, "int.plus1", f, <<Repl(f.o, f.l, EncInt(kd, f.v + 1))>>)} ELSE {})
  \cup (IF f.v > 0 THEN {Mut(ci, "int.minus1", f, <<Repl(f.o, f.l, EncInt(kd, f.v - 1))>>)} ELSE {})
  \cup (IF kd = "u8" THEN {Mut(ci, "int.set64", f, <<Repl(f.o, 1, <<64>>)>>),
                           Mut(ci, "int.set63", f, <<Repl(f.o, 1, <<63>>)>>)} ELSE {})
  \cup (IF kd = "u32" THEN {Mut(ci, "int.2^31", f, <<Repl(f.o, 4, <<0, 0, 0, 128>>)>>),
                            Mut(ci, "int.2^24", f, <<Repl(f.o, 4, <<0, 0, 0, 1>>)>>)} ELSE {})
  \cup (IF kd = "vint"
          THEN {Mut(ci, "vint.2^63", f, <<Repl(f.o, f.l, <<0, 0, 0, 0, 0, 0, 0, 0, 128>>)>>),
                Mut(ci, "vint.2^40", f, <<Repl(f.o, f.l, <<0, 0, 0, 0, 0, 0, 1, 0, 0>>)>>),
                Mut(ci, "vint.2^31", f, <<Repl(f.o, f.l, <<0, 0, 0, 0, 128, 0, 0, 0, 0>>)>>),
                Mut(ci, "vint.nonminimal9", f, <<Repl(f.o, f.l, VInt9(f.v))>>)}
               \cup (IF f.l < 8 THEN {Mut(ci, "vint.nonminimal+1", f, <<Repl(f.o, f.l, VIntWide(f.v, f.l + 1))>>)} ELSE {})
          ELSE {})

\* single-site operators on a data field
DataMuts(ci, f) ==
  IF f.l = 0 THEN {}
  ELSE {Mut(ci, "data.flip_lo", f, <<Xor(f.o, 1)>>),
        Mut(ci, "data.flip_hi", f, <<Xor(f.o + f.l - 1, 128)>>),
        Mut(ci, "data.flip_mid", f, <<Xor(f.o + f.l \div 2, 16)>>),
        Mut(ci, "data.zero8", f, <<Repl(f.o, Min2(8, f.l), Zeros(Min2(8, f.l)))>>),
        Mut(ci, "data.ff8", f, <<Repl(f.o, Min2(8, f.l), [j \in 1..Min2(8, f.l) |-> 255])>>),
        \* an opaque byte string saturated (every aligned 8- or 16-byte window reads as 2^64-1 / 2^128-1)
        Mut(ci, "data.ff64", f, <<Repl(f.o, Min2(64, f.l), [j \in 1..Min2(64, f.l) |-> 255])>>),
        Mut(ci, "data.ff_tail16", f, <<Repl(f.o + f.l - Min2(16, f.l), Min2(16, f.l), [j \in 1..Min2(16, f.l) |-> 255])>>)}

\* operators on the boundary in front of a field
BoundaryMuts(ci, f, len) ==
  {Mut(ci, "cut.truncate", f, <<Repl(f.o, len - f.o, <<>>)>>),
   Mut(ci, "cut.insert00", f, <<Repl(f.o, 0, <<0>>)>>),
   Mut(ci, "cut.insertFF", f, <<Repl(f.o, 0, <<255>>)>>)}
  \cup (IF f.l > 0 THEN {Mut(ci, "cut.delete1", f, <<Repl(f.o, 1, <<>>)>>),
                         Mut(ci, "cut.dup_field", f, <<Copy(f.o, 0, <<f.o, f.l>>, <<>>)>>),
                         Mut(ci, "cut.drop_field", f, <<Repl(f.o, f.l, <<>>)>>)} ELSE {})

EndField(len) == [g |-> "end", n |-> "end", o |-> len, l |-> 0, v |-> -1]
EndMuts(ci, len) ==
  {Mut(ci, "end.append1", EndField(len), <<Repl(len, 0, <<0>>)>>),
   Mut(ci, "end.append8", EndField(len), <<Repl(len, 0, <<1, 2, 3, 4, 5, 6, 7, 8>>)>>),
   Mut(ci, "end.append_proof", EndField(len), <<Copy(len, 0, <<0, len>>, <<>>)>>),
   Mut(ci, "end.drop1", EndField(len), <<Repl(len - 1, 1, <<>>)>>),
   Mut(ci, "end.identity", EndField(len), <<>>)}

(***************************************************************************)
(* Structured (multi-site, length-compensating) operators                  *)
(***************************************************************************)
First(M, g, n) == CHOOSE p \in 1..Len(M) : M[p].g = g /\ M[p].n = n /\ \A q \in 1..(p - 1) : ~(M[q].g = g /\ M[q].n = n)
Has(M, g, n) == \E p \in 1..Len(M) : M[p].g = g /\ M[p].n = n
GroupStart(M, g) == M[CHOOSE p \in 1..Len(M) : M[p].g = g /\ \A q \in 1..(p - 1) : M[q].g # g].o
GroupEnd(M, g) == LET p == CHOOSE p \in 1..Len(M) : M[p].g = g /\ \A q \in (p + 1)..Len(M) : M[q].g # g
                  IN M[p].o + M[p].l
Fld(M, g, n) == M[First(M, g, n)]

\* re-encode an integer field with a new value
SetInt(f, v) == Repl(f.o, f.l, EncInt(Kind(f.n), v))

QueryGroups(s) == IF s.segments = 2 THEN {"tq0", "tq1", "cq"} ELSE {"tq0", "cq"}
RowBytes(s, g) == CASE g = "tq0" -> s.main * s.eb [] g = "tq1" -> s.aux * s.ex [] OTHER -> s.cc * s.ex

\* --- coordinated row-count edits: the unique-query byte and the value tables of the query groups ---
GroupSeq(s) == IF s.segments = 2 THEN <<"tq0", "tq1", "cq">> ELSE <<"tq0", "cq">>
\* nr more rows (copies of the last nr rows) / nr fewer rows in the value table of group g, length prefix adjusted
AddRows(M, s, g, nr) == LET vl == Fld(M, g, "q.vlen")  vs == Fld(M, g, "q.vals")  rb == RowBytes(s, g) IN
                       <<SetInt(vl, vl.v + nr * rb), Copy(vs.o + vs.l, 0, <<vs.o + vs.l - nr * rb, nr * rb>>, <<>>)>>
DropRows(M, s, g, nr) == LET vl == Fld(M, g, "q.vlen")  vs == Fld(M, g, "q.vals")  rb == RowBytes(s, g) IN
                        <<SetInt(vl, vl.v - nr * rb), Repl(vs.o + vs.l - nr * rb, nr * rb, <<>>)>>
RECURSIVE RowEdits(_, _, _, _, _, _)
RowEdits(M, s, gs, G, nr, add) ==
  IF gs = <<>> THEN <<>>
  ELSE (IF Head(gs) \in G THEN (IF add THEN AddRows(M, s, Head(gs), nr) ELSE DropRows(M, s, Head(gs), nr)) ELSE <<>>)
       \o RowEdits(M, s, Tail(gs), G, nr, add)
\* every non-empty subset of the query groups, with and without the matching change of the unique-query
\* byte; only "all groups + byte" is self-consistent (the announced count equals every table's row count)
RowCountMuts(ci, M, s, uq) ==
  LET uqf == Fld(M, "uq", "uq")
      all == QueryGroups(s)
      Name(add, G, bu) == (IF add THEN "q.add_rows." ELSE "q.drop_rows.") \o (IF G = all THEN "all" ELSE "some")
                          \o (IF bu THEN "+uq" ELSE "")
  IN UNION {UNION {
       (IF uq + nr <= 255 /\ uq >= nr
          THEN {Mut(ci, Name(TRUE, G, bu), uqf,
                    (IF bu THEN <<SetInt(uqf, uq + nr)>> ELSE <<>>) \o RowEdits(M, s, GroupSeq(s), G, nr, TRUE)) : bu \in BOOLEAN}
          ELSE {})
       \cup
       (IF uq - nr >= 1
          THEN {Mut(ci, Name(FALSE, G, bu), uqf,
                    (IF bu THEN <<SetInt(uqf, uq - nr)>> ELSE <<>>) \o RowEdits(M, s, GroupSeq(s), G, nr, FALSE)) : bu \in BOOLEAN}
          ELSE {})
       : G \in (SUBSET all) \ {{}}} : nr \in {1, 2, 5}}

Structured(ci, M, s, uq, len) ==
  LET nl == Fld(M, "fri", "fri.nlayers")
      cl == Fld(M, "com", "com.len")
      uqf == Fld(M, "uq", "uq")
      rl == Fld(M, "fri", "fri.remlen")
      rm == Fld(M, "fri", "fri.rem")
      tl == Fld(M, "ood", "ood.tlen")
      tv == Fld(M, "ood", "ood.tvals")
      ql == Fld(M, "ood", "ood.qlen")
      qv == Fld(M, "ood", "ood.qvals")
      lastd == M[CHOOSE p \in 1..Len(M) : M[p].n = "com.d" /\ \A q \in (p + 1)..Len(M) : M[q].n # "com.d"]
  IN
  \* --- FRI layers: one more / one fewer than the schedule ---
  (IF s.layers >= 1 THEN
     LET g == Group(s.layers - 1)
         a == GroupStart(M, g)   b == GroupEnd(M, g)
         dp == Fld(M, g, "bmp.depth")
     IN {Mut(ci, "fri.extra_layer_copy", nl, <<SetInt(nl, s.layers + 1), Copy(b, 0, <<a, b - a>>, <<>>)>>),
         Mut(ci, "fri.drop_last_layer", nl, <<SetInt(nl, s.layers - 1), Repl(a, b - a, <<>>)>>),
         Mut(ci, "fri.drop_last_layer_keep_count", nl, <<Repl(a, b - a, <<>>)>>),
         Mut(ci, "fri.count_only_plus1", nl, <<SetInt(nl, s.layers + 1)>>)}
        \cup (IF dp.v >= Log2(s.fold)
                THEN {Mut(ci, "fri.extra_layer_wellformed", nl,
                          <<SetInt(nl, s.layers + 1),
                            Copy(b, 0, <<a, b - a>>, << <<dp.o - a, dp.v - Log2(s.fold)>> >>)>>)}
                ELSE {})
   ELSE {Mut(ci, "fri.count_only_plus1", nl, <<SetInt(nl, 1)>>)})
  \cup
  \* --- commitments: one more / one fewer digest, with and without the byte count ---
  {Mut(ci, "com.extra_digest", cl, <<SetInt(cl, cl.v + s.D), Copy(lastd.o + s.D, 0, <<lastd.o, s.D>>, <<>>)>>),
   Mut(ci, "com.drop_digest", cl, <<SetInt(cl, cl.v - s.D), Repl(lastd.o, s.D, <<>>)>>),
   Mut(ci, "com.swap_last_two", cl, <<Copy(lastd.o - s.D, s.D, <<lastd.o, s.D>>, <<>>), Copy(lastd.o, s.D, <<lastd.o - s.D, s.D>>, <<>>)>>)}
  \cup
  \* --- queries: one more / one fewer row, with and without the unique-query byte ---
  UNION {LET vl == Fld(M, g, "q.vlen")  vs == Fld(M, g, "q.vals")  rb == RowBytes(s, g) IN
         {Mut(ci, "q.extra_row", vl, <<SetInt(vl, vl.v + rb), Copy(vs.o + vs.l, 0, <<vs.o, rb>>, <<>>)>>),
          Mut(ci, "q.extra_row_uq+1", vl, <<SetInt(uqf, uq + 1), SetInt(vl, vl.v + rb), Copy(vs.o + vs.l, 0, <<vs.o, rb>>, <<>>)>>),
          Mut(ci, "q.drop_row", vl, <<SetInt(vl, vl.v - rb), Repl(vs.o + vs.l - rb, rb, <<>>)>>),
          Mut(ci, "q.drop_row_uq-1", vl, <<SetInt(uqf, uq - 1), SetInt(vl, vl.v - rb), Repl(vs.o + vs.l - rb, rb, <<>>)>>),
          Mut(ci, "q.swap_first_rows", vl, IF uq >= 2 THEN <<Copy(vs.o, rb, <<vs.o + rb, rb>>, <<>>), Copy(vs.o + rb, rb, <<vs.o, rb>>, <<>>)>> ELSE <<>>)}
         : g \in QueryGroups(s)}
  \cup
  \* --- batch Merkle proofs: one surplus digest appended to the last node vector of an opening proof, with the
  \*     vector's count and the byte count of the proof adjusted (a well-formed encoding of a proof with one
  \*     node more than the openings need) ---
  UNION {LET pl == Fld(M, g, IF g \in QueryGroups(s) THEN "q.plen" ELSE "fl.plen")
             lp == CHOOSE q \in 1..Len(M) : M[q].g = g /\ M[q].n = "bmp.nodes" /\ \A r \in (q + 1)..Len(M) : ~(M[r].g = g /\ M[r].n = "bmp.nodes")
             nd == M[lp]
             vc == M[lp - 1]
         IN IF nd.l >= s.D /\ vc.n = "bmp.vcnt"
              THEN {Mut(ci, "bmp.extra_node", vc, <<SetInt(pl, pl.v + s.D), SetInt(vc, vc.v + 1),
                                                     Copy(nd.o + nd.l, 0, <<nd.o + nd.l - s.D, s.D>>, <<>>)>>)}
              ELSE {}
         : g \in {h \in QueryGroups(s) \cup {Group(j) : j \in 0..(s.layers - 1)} : Has(M, h, "bmp.nodes")}}
  \cup
  \* --- OOD frame: one more element with the length adjusted; frame-size byte ---
  {Mut(ci, "ood.extra_trace_elem", tl, <<SetInt(tl, tl.v + s.ex), Copy(tv.o + tv.l, 0, <<tv.o, s.ex>>, <<>>)>>),
   Mut(ci, "ood.extra_quotient_elem", ql, <<SetInt(ql, ql.v + s.ex), Copy(qv.o + qv.l, 0, <<qv.o, s.ex>>, <<>>)>>),
   Mut(ci, "ood.drop_trace_elem", tl, <<SetInt(tl, tl.v - s.ex), Repl(tv.o + tv.l - s.ex, s.ex, <<>>)>>),
   Mut(ci, "ood.swap_blobs_lengths", tl, <<SetInt(tl, ql.v), SetInt(ql, tl.v)>>)}
  \cup
  \* --- modulus: twice as many modulus bytes (high bytes zero), i.e. the same number in a wider encoding ---
  {LET ml == Fld(M, "ctx", "modlen")  md == Fld(M, "ctx", "mod") IN
   Mut(ci, "ctx.mod_widen", ml, <<SetInt(ml, 2 * ml.v), Repl(md.o + md.l, 0, Zeros(md.l))>>)}
  \cup
  \* --- remainder: same polynomial padded with zero high coefficients; halved ---
  {Mut(ci, "fri.rem_pad_zero", rl, <<SetInt(rl, 2 * rl.v), Repl(rm.o + rm.l, 0, Zeros(rm.l))>>),
   Mut(ci, "fri.rem_halve", rl, IF rm.l >= 2 * s.ex THEN <<SetInt(rl, rl.v \div 2), Repl(rm.o + rm.l \div 2, rm.l \div 2, <<>>)>> ELSE <<>>)}

(***************************************************************************)
(* Another extension degree, coherently: the extension byte of the options *)
(* is changed to e2 and EVERY extension-field section (auxiliary and        *)
(* constraint query values, both out-of-domain blobs, every FRI layer's    *)
(* values, the remainder) is re-encoded at the new element width (zero     *)
(* coordinates appended to / high coordinates cut from every element) with *)
(* its length prefix adjusted: a well-formed proof of a different shape.    *)
(***************************************************************************)
IsEBlob(f) == (f.n = "q.vals" /\ f.g \in {"tq1", "cq"}) \/ f.n \in {"ood.tvals", "ood.qvals", "fl.vals", "fri.rem"}
RetagBlob(f, ex, exn) ==
  \* (widening inserts the zero coordinates in FRONT of every element: no edit then shares its offset with
  \*  the edit of a following length field)
  [j \in 1..(f.l \div ex) |-> IF exn > ex THEN Repl(f.o + (j - 1) * ex, 0, Zeros(exn - ex))
                                        ELSE Repl(f.o + j * ex - (ex - exn), ex - exn, <<>>)]
RECURSIVE RetagFrom(_, _, _, _)
RetagFrom(M, p, ex, exn) ==
  IF p > Len(M) THEN <<>>
  ELSE (IF IsEBlob(M[p])
          THEN LET ood == M[p].n \in {"ood.tvals", "ood.qvals"}
                   lf  == M[IF ood THEN p - 2 ELSE p - 1]
                   nl  == (M[p].l \div ex) * exn + (IF ood THEN 1 ELSE 0)
               IN <<SetInt(lf, nl)>> \o RetagBlob(M[p], ex, exn)
          ELSE <<>>)
       \o RetagFrom(M, p + 1, ex, exn)
ExtRetag(ci, M, s) ==
  LET xe == Fld(M, "ctx", "opt.ext") IN
  {Mut(ci, "ext.retag", xe, <<Repl(xe.o, 1, <<e2>>)>> \o RetagFrom(M, 1, s.ex, s.eb * e2)) : e2 \in {1, 2, 3} \ {xe.v}}

(***************************************************************************)
(* Length-compensating edits: a length prefix plus one, one byte inserted  *)
(* at the end of what it announces                                         *)
(***************************************************************************)
LenPairs == {<<"ti.metalen", "ti.meta">>, <<"modlen", "mod">>, <<"q.vlen", "q.vals">>, <<"fl.vlen", "fl.vals">>,
             <<"fri.remlen", "fri.rem">>, <<"ood.tlen", "ood.tvals">>, <<"ood.qlen", "ood.qvals">>}
Compensating(ci, M) ==
  {Mut(ci, "len.plus1_insert", M[p], <<SetInt(M[p], M[p].v + 1), Repl(M[q].o + M[q].l, 0, <<0>>)>>)
     : <<p, q>> \in {<<p, q>> \in (1..Len(M)) \X (1..Len(M)) :
                       /\ q > p /\ q <= p + 2 /\ M[p].g = M[q].g /\ <<M[p].n, M[q].n>> \in LenPairs}}

(***************************************************************************)
(* Header byte strings: boundary values of every context / options header  *)
(* byte, one and two at a time                                             *)
(***************************************************************************)
HeaderVals(n) ==
  CASE n = "ti.main" -> {0, 1, 254, 255}
    [] n = "ti.aux" -> {0, 1, 253, 254, 255}
    [] n = "ti.rands" -> {0, 1, 255}
    [] n = "ti.logn" -> {0, 2, 3, 20, 31, 32, 40, 41, 62, 63, 64, 255}
    [] n = "modlen" -> {0, 1, 7, 9, 255}
    [] n = "opt.queries" -> {0, 1, 255}
    [] n = "opt.blowup" -> {0, 1, 2, 3, 128, 129, 255}
    [] n = "opt.grind" -> {0, 32, 33, 255}
    [] n = "opt.ext" -> {0, 1, 2, 3, 4, 255}
    [] n = "opt.fold" -> {0, 1, 2, 3, 16, 17, 32, 255}
    [] n = "opt.rem" -> {0, 1, 2, 127, 254, 255}
    [] n = "opt.cbatch" -> {0, 1, 2, 3, 255}
    [] n = "opt.dbatch" -> {0, 1, 2, 3, 255}
    [] n = "opt.parts" -> {0, 1, 2, 16, 17, 255}
    [] n = "opt.hrate" -> {0, 1, 2, 255}
    [] n = "uq" -> {0, 1, 255}
    [] OTHER -> {}
HeaderNames == {"ti.main", "ti.aux", "ti.rands", "ti.logn", "modlen", "opt.queries", "opt.blowup", "opt.grind",
                "opt.ext", "opt.fold", "opt.rem", "opt.cbatch", "opt.dbatch", "opt.parts", "opt.hrate", "uq"}
HeaderIdx(M) == {p \in 1..Len(M) : M[p].n \in HeaderNames}
Header1(ci, M) ==
  UNION {{Mut(ci, "hdr.one", M[p], <<Repl(M[p].o, 1, <<v>>)>>) : v \in HeaderVals(M[p].n) \ {M[p].v}} : p \in HeaderIdx(M)}
\* multi-byte header fields: metadata length and constraint count
HeaderWide(ci, M) ==
  LET ml == Fld(M, "ctx", "ti.metalen")  nc == Fld(M, "ctx", "ncons") IN
  {Mut(ci, "hdr.metalen", ml, <<Repl(ml.o, 2, b)>>) : b \in {<<0, 0>>, <<1, 0>>, <<255, 0>>, <<0, 1>>, <<255, 255>>}}
  \cup {Mut(ci, "hdr.ncons", nc, <<Repl(nc.o, nc.l, b)>>)
          : b \in {<<1>>, <<3>>, <<255>>, <<2, 0>>, <<0, 0, 0, 0, 0, 0, 0, 0, 0>>, <<0, 255, 255, 255, 255, 0, 0, 0, 0>>,
                   <<0, 0, 0, 0, 0, 1, 0, 0, 0>>, <<0, 255, 255, 255, 255, 255, 255, 255, 255>>}}
Header2(ci, M) ==
  UNION {UNION {{Mut(ci, "hdr.two", M[p], <<Repl(M[p].o, 1, <<v>>), Repl(M[q].o, 1, <<w>>)>>)
                   : <<v, w>> \in (HeaderVals(M[p].n) \ {M[p].v}) \X (HeaderVals(M[q].n) \ {M[q].v})}
                : q \in {q \in HeaderIdx(M) : q > p}}
         : p \in HeaderIdx(M)}

(***************************************************************************)
(* Two-site mutations: a deterministic pairing of single-site edits in     *)
(* different fields                                                        *)
(***************************************************************************)
PairMuts(ci, M) ==
  LET n == Len(M)
      A(p) == IF IsInt(M[p].n) THEN Xor(M[p].o, 1) ELSE Xor(M[p].o + M[p].l \div 2, 4)
      NonEmpty == {p \in 1..n : M[p].l > 0}
  IN {Mut(ci, "pair.flip_flip", M[p], <<A(p), A(q)>>)
        : <<p, q>> \in {<<p, q>> \in NonEmpty \X NonEmpty : q = ((p * 7 + 3) % n) + 1 /\ q # p}}

(***************************************************************************)
(* Everything for one proof                                                *)
(***************************************************************************)
MutsOf(r) ==
  LET M == r.map  ci == r.i  s == Shape(Cases[r.i + 1]) IN
  UNION {IF IsInt(M[p].n) THEN IntMuts(ci, M[p]) ELSE DataMuts(ci, M[p]) : p \in 1..Len(M)}
  \cup UNION {BoundaryMuts(ci, M[p], r.len) : p \in 1..Len(M)}
  \cup EndMuts(ci, r.len)
  \cup Structured(ci, M, s, r.uq, r.len)
  \cup RowCountMuts(ci, M, s, r.uq)
  \cup ExtRetag(ci, M, s)
  \cup Compensating(ci, M)
  \cup Header1(ci, M) \cup HeaderWide(ci, M)
  \cup (IF Pairs THEN PairMuts(ci, M) ELSE {})
  \cup (IF ci \in HeaderPairsFor THEN Header2(ci, M) ELSE {})

HPFirst == {0}
HPAll == 0..63

Init == k \in 1..Len(Maps)
Next == UNCHANGED k
Spec == Init /\ [][Next]_k

\* tool-level checks
GrammarOk == MapOk(Maps[k])
CasesBind == Binding
\* emission
Emit == \A m \in MutsOf(Maps[k]) : PrintT(<<"MUT", ToJson(m)>>)
=============================================================================
