\* C07 quick: every boundary of every field of every component type.
SPECIFICATION Spec
CONSTANT Thorough = FALSE
INVARIANT Accepted Emit
CHECK_DEADLOCK FALSE
