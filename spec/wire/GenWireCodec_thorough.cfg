\* C07 thorough: as quick, plus every trace-length exponent 3..63, every hash rate 1..255, the large FRI image.
SPECIFICATION Spec
CONSTANT Thorough = TRUE
INVARIANT Accepted Emit
CHECK_DEADLOCK FALSE
