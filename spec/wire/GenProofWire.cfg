\* C04/C05 quick: grammar check of every field map, single-site + structured + length-compensating
\* mutations, one-at-a-time header bytes.
SPECIFICATION Spec
CONSTANTS Thorough = FALSE  Pairs = FALSE
INVARIANT GrammarOk CasesBind Emit
CHECK_DEADLOCK FALSE
