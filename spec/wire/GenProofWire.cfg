\* C04/C05 quick: grammar check of every field map, single-site + structured + length-compensating
\* mutations, header bytes one at a time; header byte pairs on the first instance.
SPECIFICATION Spec
CONSTANTS Thorough = FALSE  Pairs = FALSE
  HeaderPairsFor <- HPFirst
INVARIANT GrammarOk CasesBind Emit
CHECK_DEADLOCK FALSE
