---------------------------- MODULE MCWireCases ----------------------------
(* Prints the honest-proof instances of WireCases.tla (one REPLAY line per case). *)
EXTENDS WireCases, Json
VARIABLE c
Init == c \in 1..Len(Cases)
Next == UNCHANGED c
Spec == Init /\ [][Next]_c
Emit == PrintT(<<"REPLAY", ToJson([idx |-> c - 1, case |-> Cases[c], shape |-> Shape(Cases[c])])>>)
Binds == Binding
=============================================================================
