---------------------------- MODULE MCWireCodec ----------------------------
(* Generator of C07 component round-trip scenarios.  The scenarios form the constant sequence All; the
   always-true invariant Emit prints every scenario; the invariant Accepted is the design-level
   self-check that every enumerated description lies inside the constructor-accepted space stated in
   WireCodec.tla. *)
EXTENDS WireCodec, Json, FiniteSets

CONSTANT Thorough
VARIABLE c

Pick(L, i, stride) == L[((i \div stride) % Len(L)) + 1]

RECURSIVE SetToSeq(_)
SetToSeq(S) == IF S = {} THEN <<>> ELSE LET x == CHOOSE y \in S : TRUE IN <<x>> \o SetToSeq(S \ {x})

Range(lo, hi) == [i \in 1..(hi - lo + 1) |-> lo + i - 1]

(***************************************************************************)
(* TraceInfo: full grid over the boundaries of every field                 *)
(***************************************************************************)
TiMain  == <<1, 2, 128, 254, 255>>
TiAux   == <<0, 1, 127, 253, 254>>
TiRands == <<0, 1, 255>>
TiLogn  == IF Thorough THEN Range(3, 63) ELSE <<3, 4, 31, 32, 63>>
TiMeta  == <<0, 1, 65535>>
TiN == Len(TiMain) * Len(TiAux) * Len(TiRands) * Len(TiLogn) * Len(TiMeta)
TiAt(i) == [main |-> Pick(TiMain, i, 1), aux |-> Pick(TiAux, i, 5), rands |-> Pick(TiRands, i, 25),
            logn |-> Pick(TiLogn, i, 75), mseed |-> i % 7, mlen |-> Pick(TiMeta, i, 75 * Len(TiLogn))]
TiCases == SelectSeq([i \in 1..TiN |-> TiAt(i - 1)], TraceInfoOk)
TiScen(d) == [ty |-> "TraceInfo", f |-> "f64", h |-> "blake3_256", x |-> 1, d |-> d, exp |-> TraceInfoImage(d)]

(***************************************************************************)
(* ProofOptions: every value of every field around three bases, the full   *)
(* partition grid and the full tag grid                                    *)
(***************************************************************************)
Base1 == [queries |-> 28, blowup |-> 8, grind |-> 16, ext |-> 2, fold |-> 4, rem |-> 7, cbatch |-> 0,
          dbatch |-> 1, parts |-> 1, hrate |-> 1]
Base2 == [queries |-> 255, blowup |-> 128, grind |-> 32, ext |-> 3, fold |-> 16, rem |-> 255, cbatch |-> 2,
          dbatch |-> 2, parts |-> 16, hrate |-> 255]
Base3 == [queries |-> 1, blowup |-> 2, grind |-> 0, ext |-> 1, fold |-> 2, rem |-> 0, cbatch |-> 0,
          dbatch |-> 0, parts |-> 1, hrate |-> 1]
Blowups == {2, 4, 8, 16, 32, 64, 128}
Rems    == {0, 1, 3, 7, 15, 31, 63, 127, 255}
HRates  == IF Thorough THEN 1..255 ELSE {1, 2, 8, 127, 128, 254, 255}
Star(b, full) ==
  {[b EXCEPT !.queries = v] : v \in IF full THEN 1..255 ELSE {1, 2, 127, 128, 254, 255}} \cup {[b EXCEPT !.blowup = v] : v \in Blowups}
  \cup {[b EXCEPT !.grind = v] : v \in 0..32} \cup {[b EXCEPT !.ext = v] : v \in 1..3}
  \cup {[b EXCEPT !.fold = v] : v \in {2, 4, 8, 16}} \cup {[b EXCEPT !.rem = v] : v \in Rems}
  \cup {[b EXCEPT !.cbatch = v] : v \in 0..2} \cup {[b EXCEPT !.dbatch = v] : v \in 0..2}
  \cup {[b EXCEPT !.parts = v] : v \in 1..16} \cup {[b EXCEPT !.hrate = v] : v \in HRates}
OptSet == Star(Base1, TRUE) \cup Star(Base2, Thorough) \cup Star(Base3, Thorough)
          \cup {[Base1 EXCEPT !.parts = p, !.hrate = r] : p \in 1..16, r \in {1, 8, 255}}
          \cup {[Base1 EXCEPT !.ext = e, !.cbatch = a, !.dbatch = b] : e \in 1..3, a \in 0..2, b \in 0..2}
OptCases == SetToSeq(OptSet)
OptScen(o) == [ty |-> "ProofOptions", f |-> "f64", h |-> "blake3_256", x |-> 1, d |-> o, exp |-> <<Lit(OptionsBytes(o))>>]

(***************************************************************************)
(* Context                                                                 *)
(***************************************************************************)
NCons == <<BN(1), BN(127), BN(128), BN(16383), BN(16384), BN(2097151), BN(2097152), BN(268435455),
           BN(268435456), <<255, 255, 255, 127>>, <<0, 0, 0, 128>>, <<255, 255, 255, 255>>>>
CtxTi(o) == <<[main |-> 1, aux |-> 0, rands |-> 0, logn |-> 3, mseed |-> 1, mlen |-> 0],
              [main |-> 255, aux |-> 0, rands |-> 0, logn |-> 31 - Log2(o.blowup), mseed |-> 2, mlen |-> 3],
              [main |-> 1, aux |-> 254, rands |-> 255, logn |-> 10, mseed |-> 3, mlen |-> 65535],
              [main |-> 7, aux |-> 3, rands |-> 0, logn |-> 20, mseed |-> 4, mlen |-> 1]>>
CtxFields == <<"f64", "f62", "f128">>
CtxOpts == <<Base1, Base2, Base3>>
CtxN == 4 * 3 * 3 * Len(NCons)
CtxAt(i) == LET o == Pick(CtxOpts, i, 12) IN
            [ti |-> Pick(CtxTi(o), i, 1), f |-> Pick(CtxFields, i, 4), o |-> o, ncons |-> Pick(NCons, i, 36)]
CtxCases == SelectSeq([i \in 1..CtxN |-> CtxAt(i - 1)], ContextOk)
CtxScen(d) == [ty |-> "Context", f |-> d.f, h |-> "blake3_256", x |-> 1, d |-> d, exp |-> ContextImage(d)]

(***************************************************************************)
(* Digests                                                                 *)
(***************************************************************************)
Hashers == <<"blake3_256", "blake3_192", "sha3_256", "rp64_256", "rpjive64_256", "rp62_248">>
ElemHashers == <<"rp64_256", "rpjive64_256", "rp62_248">>
PatDigestBytes(h, s) == [i \in 1..DigestLen(h) |-> PatByte(s, i - 1)]
\* a "mid" canonical element of the hasher's field: top byte cleared so that it is below every modulus
MidElem(h, s) == [i \in 1..8 |-> IF i = 8 THEN PatByte(s, 7) % 32 ELSE PatByte(s, i - 1)]
MkDigest(h, s) == IF h \in ByteHashers THEN BDig(PatDigestBytes(h, s))
                  ELSE EDig(<<MidElem(h, s), MidElem(h, s + 1), MidElem(h, s + 2), MidElem(h, s + 3)>>)
ElemVals(h) == <<<<>>, <<1>>, MaxElem(HashField(h)), MidElem(h, 5)>>
ByteDigestCases(h) == <<BDig(Zeros(DigestLen(h))), BDig([i \in 1..DigestLen(h) |-> 255]),
                        BDig(PatDigestBytes(h, 1)), BDig(PatDigestBytes(h, 2))>>
\* every assignment of {0, 1, p-1, mid} to the four positions (thorough); quick: {0, p-1, mid} (81)
EVals(h) == IF Thorough THEN ElemVals(h) ELSE <<ElemVals(h)[1], ElemVals(h)[3], ElemVals(h)[4]>>
ElemDigestCases(h) == LET n == Len(EVals(h)) IN
                      [i \in 1..(n * n * n * n) |->
                         EDig(<<Pick(EVals(h), i - 1, 1), Pick(EVals(h), i - 1, n),
                                Pick(EVals(h), i - 1, n * n), Pick(EVals(h), i - 1, n * n * n)>>)]
DigestCases(h) == IF h \in ByteHashers THEN ByteDigestCases(h) ELSE ElemDigestCases(h)
DigScen(h, d) == [ty |-> "Digest", f |-> HashField(h), h |-> h, x |-> 1, d |-> d, exp |-> <<Lit(DigestImage(h, d))>>]
RECURSIVE DigScens(_)
DigScens(k) == IF k > Len(Hashers) THEN <<>>
               ELSE LET h == Hashers[k] IN [i \in 1..Len(DigestCases(h)) |-> DigScen(h, DigestCases(h)[i])] \o DigScens(k + 1)

(***************************************************************************)
(* Commitments                                                             *)
(***************************************************************************)
DigList(h, s, n) == [i \in 1..n |-> MkDigest(h, s + 4 * i)]
ComCounts == <<<<0, 0>>, <<1, 0>>, <<1, 1>>, <<2, 1>>, <<1, 2>>, <<2, 5>>, <<1, 40>>>>
ComSmall(h) == [i \in 1..Len(ComCounts) |->
                  [trace |-> DigList(h, i, ComCounts[i][1]), cons |-> MkDigest(h, 100 + i),
                   fri |-> DigList(h, 200 + i, ComCounts[i][2]), pseed |-> 0, pn |-> 0]]
\* the largest byte count write_into accepts (< 65535), byte hashers only
ComMax(h) == LET total == 65534 \div DigestLen(h) IN
             <<[trace |-> DigList(h, 1, 1), cons |-> MkDigest(h, 7), fri |-> DigList(h, 9, 1), pseed |-> 3, pn |-> total - 3]>>
ComCases(h) == IF h \in ByteHashers THEN ComSmall(h) \o ComMax(h) ELSE ComSmall(h)
ComScen(h, d) == [ty |-> "Commitments", f |-> HashField(h), h |-> h, x |-> 1, d |-> d, exp |-> CommitmentsImage(h, d)]
RECURSIVE ComScens(_)
ComScens(k) == IF k > Len(Hashers) THEN <<>>
               ELSE LET h == Hashers[k] IN [i \in 1..Len(ComCases(h)) |-> ComScen(h, ComCases(h)[i])] \o ComScens(k + 1)

(***************************************************************************)
(* BatchMerkleProof                                                        *)
(***************************************************************************)
BmpDepths == <<0, 1, 7, 63, 64, 255>>
BmpNodes(h) == <<<<>>, <<<<>>>>, <<DigList(h, 1, 1)>>, <<DigList(h, 2, 1), <<>>, DigList(h, 3, 2)>>,
                 [i \in 1..127 |-> <<>>], [i \in 1..128 |-> <<>>], <<DigList(h, 4, 127)>>, <<DigList(h, 5, 128), <<>>>>,
                 [i \in 1..5 |-> DigList(h, 10 * i, i - 1)],
                 \* many node vectors (one per opened sibling pair): counts around 256 and well above
                 [i \in 1..255 |-> <<>>], [i \in 1..256 |-> <<>>], [i \in 1..257 |-> <<>>],
                 [i \in 1..1000 |-> IF i % 100 = 0 THEN DigList(h, i, 1) ELSE <<>>]>>
BmpN(h) == Len(BmpDepths) * Len(BmpNodes(h))
BmpAt(h, i) == [depth |-> Pick(BmpDepths, i, 1), nodes |-> Pick(BmpNodes(h), i, Len(BmpDepths))]
BmpScen(h, d) == [ty |-> "BatchMerkleProof", f |-> HashField(h), h |-> h, x |-> 1, d |-> d, exp |-> <<Lit(BmpBytes(h, d))>>]
RECURSIVE BmpScens(_)
BmpScens(k) == IF k > Len(Hashers) THEN <<>>
               ELSE LET h == Hashers[k] IN [i \in 1..BmpN(h) |-> BmpScen(h, BmpAt(h, i - 1))] \o BmpScens(k + 1)

(***************************************************************************)
(* Queries and OodFrame over (field, hasher, extension) combinations       *)
(***************************************************************************)
Combos == <<[f |-> "f64", h |-> "blake3_256", x |-> 1], [f |-> "f64", h |-> "rp64_256", x |-> 2],
            [f |-> "f128", h |-> "sha3_256", x |-> 2], [f |-> "f62", h |-> "rp62_248", x |-> 3],
            [f |-> "f64", h |-> "blake3_192", x |-> 3], [f |-> "f64", h |-> "rpjive64_256", x |-> 1],
            [f |-> "f128", h |-> "blake3_256", x |-> 1], [f |-> "f62", h |-> "blake3_256", x |-> 2]>>
QRows == <<1, 2, 255>>
QCols == <<1, 3, 255>>
QBmps(h) == <<[depth |-> 0, nodes |-> <<>>], [depth |-> 7, nodes |-> <<DigList(h, 1, 2), <<>>, DigList(h, 2, 1)>>],
              [depth |-> 63, nodes |-> <<<<>>>>], [depth |-> 200, nodes |-> <<DigList(h, 3, 1)>>]>>
QN == Len(QRows) * Len(QCols) * 4
QAt(k, i) == [bmp |-> Pick(QBmps(k.h), i, 9), rows |-> Pick(QRows, i, 1), cols |-> Pick(QCols, i, 3), x |-> k.x,
              vseed |-> i, lit |-> <<>>]
\* explicit boundary elements: 0, 1, p-1 in every coordinate position (2 x 2 table)
QLit(k) == LET vals == <<<<>>, <<1>>, MaxElem(k.f), BN(77)>> IN
           [bmp |-> QBmps(k.h)[2], rows |-> 2, cols |-> 2, x |-> k.x, vseed |-> 0,
            lit |-> [j \in 1..(4 * k.x) |-> Pick(vals, j - 1, 1)]]
QScen(k, d) == [ty |-> "Queries", f |-> k.f, h |-> k.h, x |-> k.x, d |-> d, exp |-> QueriesImage(k.f, k.h, d)]
RECURSIVE QScens(_)
QScens(j) == IF j > Len(Combos) THEN <<>>
             ELSE LET k == Combos[j] IN
                  ([i \in 1..QN |-> QScen(k, QAt(k, i - 1))] \o <<QScen(k, QLit(k))>>) \o QScens(j + 1)

OodWs == <<<<1, 1>>, <<2, 1>>, <<2, 2>>, <<255, 1>>, <<255, 254>>, <<255, 255>>>>
OodQs == <<1, 2, 8, 255>>
OodN == Len(OodWs) * Len(OodQs)
OodAt(k, i) == [w |-> Pick(OodWs, i, 1)[1], mw |-> Pick(OodWs, i, 1)[2], q |-> Pick(OodQs, i, Len(OodWs)), x |-> k.x,
                seed |-> i, dflt |-> FALSE]
OodDefault(k) == [w |-> 0, mw |-> 0, q |-> 0, x |-> k.x, seed |-> 0, dflt |-> TRUE]
OodScen(k, d) == [ty |-> "OodFrame", f |-> k.f, h |-> k.h, x |-> k.x, d |-> d, exp |-> OodImage(k.f, d)]
RECURSIVE OodScens(_)
OodScens(j) == IF j > Len(Combos) THEN <<>>
               ELSE LET k == Combos[j] IN
                    ([i \in 1..OodN |-> OodScen(k, OodAt(k, i - 1))] \o <<OodScen(k, OodDefault(k))>>) \o OodScens(j + 1)

(***************************************************************************)
(* FriProof byte images                                                    *)
(***************************************************************************)
PatBytes(s, n) == [i \in 1..n |-> PatByte(s, i - 1)]
FriLayerCounts == <<0, 1, 2, 255>>
FriParts == <<0, 1, 4, 16, 62, 63>>
FriRems == <<0, 8, 64, 513>>
FriN == Len(FriLayerCounts) * Len(FriParts) * Len(FriRems)
FriAt(i) == LET n == Pick(FriLayerCounts, i, 1) IN
            [layers |-> [j \in 1..n |-> [vals |-> PatBytes(i + j, IF j % 2 = 1 THEN 1 ELSE 64),
                                         paths |-> PatBytes(i + j + 1, IF j % 3 = 0 THEN 0 ELSE 40)]],
             rem |-> PatBytes(i, Pick(FriRems, i, 24)), parts |-> Pick(FriParts, i, 4)]
FriBig == [layers |-> <<[vals |-> PatBytes(1, 300), paths |-> PatBytes(2, 70000)]>>, rem |-> PatBytes(3, 65535), parts |-> 0]
FriScen(d) == [ty |-> "FriProof", f |-> "f64", h |-> "blake3_256", x |-> 1,
               d |-> [nlayers |-> Len(d.layers), remlen |-> Len(d.rem), parts |-> d.parts], exp |-> <<Lit(FriBytes(d))>>]
FriScens == [i \in 1..FriN |-> FriScen(FriAt(i - 1))] \o (IF Thorough THEN <<FriScen(FriBig)>> ELSE <<>>)

(***************************************************************************)
(* All scenarios                                                           *)
(***************************************************************************)
All == [i \in 1..Len(TiCases) |-> TiScen(TiCases[i])]
       \o [i \in 1..Len(OptCases) |-> OptScen(OptCases[i])]
       \o [i \in 1..Len(CtxCases) |-> CtxScen(CtxCases[i])]
       \o DigScens(1) \o ComScens(1) \o BmpScens(1) \o QScens(1) \o OodScens(1) \o FriScens

Init == c = 0
Next == UNCHANGED c
Spec == Init /\ [][Next]_c

\* design-level self-check: everything enumerated is inside the constructor-accepted space
InSpace(s) ==
  CASE s.ty = "TraceInfo"        -> TraceInfoOk(s.d)
    [] s.ty = "ProofOptions"     -> OptionsOk(s.d)
    [] s.ty = "Context"          -> ContextOk(s.d)
    [] s.ty = "Digest"           -> DigestOk(s.h, s.d)
    [] s.ty = "Commitments"      -> CommitmentsOk(s.h, s.d)
    [] s.ty = "BatchMerkleProof" -> BmpOk(s.h, s.d)
    [] s.ty = "Queries"          -> QueriesOk(s.h, s.d)
    [] s.ty = "OodFrame"         -> OodOk(s.f, s.d)
    [] OTHER                     -> TRUE
\* (one state; both invariants range over the whole constant sequence)
Accepted == \A i \in 1..Len(All) : InSpace(All[i])
Emit == \A i \in 1..Len(All) : PrintT(<<"REPLAY", ToJson(All[i])>>)
=============================================================================
