SPECIFICATION Spec
CONSTANT Thorough = TRUE
INVARIANT Binds Emit
CHECK_DEADLOCK FALSE
