------------------------------ MODULE TraceWire ------------------------------
(* C04 / C05 — the verdict rules, as a trace specification over the outcomes recorded by the isolated
   workers (one event per input, logged whatever happened: a panic, an abort or a timeout of the code
   under test is data).

   Event fields (ndjson file named by the environment variable TRACE):
       de      outcome class of deserialisation (`Proof::from_bytes` or a component decoder):
               "ok" | "err" | "panic" | "crash" (the process died: abort, memory limit) | "timeout"
       ve      outcome classes of `verify`, one per acceptable-options variant that was run
               (a sequence of "ok" | "err" | "panic" | "crash" | "timeout"; empty when nothing was
               deserialised); "ok" means ACCEPTED
       diff    names of the parsed components (context, unique_queries, commitments, trace_queries,
               constraint_queries, ood_frame, fri_layers, fri_remainder, fri_partitions, pow_nonce)
               whose parsed contents differ from the honest proof's — reported when some variant accepted
   C04 (Mode = "C04"): an input may be Accepted only if every parsed component equals the original's:
               "ok" \in ve  =>  diff = <<>>
   C05 (Mode = "C05"): every operation returns a value or an error:
               de \in {"ok", "err"}  /\  \A v \in ve : v \in {"ok", "err"}
   Validation continues after an unexplained event and prints its index. *)
EXTENDS Integers, Sequences, TLC, Json, IOUtils

CONSTANT Mode
Rec == ndJsonDeserialize(IOEnv.TRACE)
VARIABLE l

Returned == {"ok", "err"}
InSeq(x, s) == \E i \in 1..Len(s) : s[i] = x

Explains(e) ==
  IF Mode = "C04"
    THEN InSeq("ok", e.ve) => e.diff = <<>>
    ELSE e.de \in Returned /\ \A i \in 1..Len(e.ve) : e.ve[i] \in Returned

Init == l = 1
Next == /\ l <= Len(Rec)
        /\ IF Explains(Rec[l]) THEN TRUE ELSE PrintT(<<"REJECTED_EVENT", l>>)
        /\ l' = l + 1
Spec == Init /\ [][Next]_l

Progress == TLCSet(7, l)
Accepted == IF TLCGet(7) = Len(Rec) + 1 THEN PrintT(<<"CONSUMED", Len(Rec)>>)
            ELSE Print(<<"STOPPED_AT", TLCGet(7)>>, FALSE)
=============================================================================
