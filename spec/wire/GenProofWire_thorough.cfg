\* C04/C05 thorough: all cases, plus two-site mutations and header byte pairs.
SPECIFICATION Spec
CONSTANTS Thorough = TRUE  Pairs = TRUE
INVARIANT GrammarOk CasesBind Emit
CHECK_DEADLOCK FALSE
