\* C04/C05 thorough: all instances, plus two-site mutations and header byte pairs everywhere.
SPECIFICATION Spec
CONSTANTS Thorough = TRUE  Pairs = TRUE
  HeaderPairsFor <- HPAll
INVARIANT GrammarOk CasesBind Emit
CHECK_DEADLOCK FALSE
