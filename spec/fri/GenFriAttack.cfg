\* C09 quick tier: every schedule with domain 8..128, two cases per applicable class, + real-field cases.
SPECIFICATION Spec
CONSTANTS MinLogN = 3  MaxLogN = 7  Variants = 2  NReal = 160  RealMaxLogN = 10
ACTION_CONSTRAINT Emit
CHECK_DEADLOCK FALSE
