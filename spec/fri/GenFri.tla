------------------------------- MODULE GenFri -------------------------------
(* C08 — generator of honest FRI instances with their COMPLETE expected transcript and verdict.

   Every instance is an initial state; the only step (phase 0 -> 1) exists so that TLC's workers
   evaluate the instances in parallel; the ACTION_CONSTRAINT Emit prints the instance (evaluation
   vector, scripted alphas, query positions) together with what Fri.tla computes: number of layers,
   the folded positions and the opened rows of every layer, the remainder, and the verdict of the
   (strict) verifier of Fri.tla.  Completeness at the explored scope — the verdict of every supported
   honest instance is "accept" — is asserted by the check on the printed scenarios; a failure is a
   specification-level error (tool error), never a violation.

   Families
     "ex1"  all polynomials c0 + c1*x over F_97           (n = 8,  blowup 4, folding 2, remainder degree 0)
     "ex3"  all polynomials of degree <= 3 with coefficients in {0, 1, 2, 96} over F_97, 4 alphas,
            4 position multisets                            (n = 8,  blowup 2, folding 2, remainder degree 1)
     "cfg"  every supported (domain, blowup, folding, remainder degree) combination below the bounds of
            the .cfg, Variants instances each: field / extension degree, polynomial family
            (zero, constant, monomial, top monomial, full degree, lower degree), position multiset
            family (single, duplicates, one whole coset, all but one position, many, few) and alphas
            (seeded; 0, 1 and a point of the domain are forced regularly) rotate with the instance
            number, seeded by SEED.
     "drp"  folding::apply_drp on its own: seeded polynomials of any degree below the domain size,
            arbitrary non-zero offsets, all folding factors.
     "pos"  fold_positions / map_positions_to_indexes on seeded position lists.
     "real" supported parameter combinations for the production fields f64 / f62 / f128, their
            extensions and the hash functions available for each (the polynomial of the stated family is
            drawn by the harness from `seed`, the coin is the real DefaultRandomCoin); the only
            expectation is the verdict "accept", which is the completeness of the protocol for
            supported parameters. *)
EXTENDS Fri, Rand, Json

CONSTANTS
  Ex1B,             \* "ex1": values of the coefficient c1 (c0 runs over all of F_97); 0..96 = exhaustive
  Ex3A, Ex3P,       \* "ex3": indexes (subsets of 1..4) of the alphas / position multisets used
  BigLogNs, BigBlowups,  \* additional large domains (one variant per schedule)
  MinLogN, MaxLogN, \* domain sizes 2^MinLogN .. 2^MaxLogN of the "cfg" family (all schedules)
  Blowups, Foldings, RemDegs,
  Variants,         \* instances per configuration
  NDrp, NPos,       \* number of "drp" / "pos" cases
  NReal, RealMaxLogN \* "real": instances over the production fields (verdict only), domain up to 2^RealMaxLogN

BlowupsAll == {2, 4, 8, 16}
FoldingsAll == {2, 4, 8, 16}
RemDegsAll == 0..15
RemDegsPow == {0, 1, 3, 7, 15}
Ex1BQuick == {0, 1, 2, 3, 31, 48, 49, 64, 94, 95, 96}
Ex1BAll == 0..96

VARIABLES case, phase
vars == <<case, phase>>

(***************************************************************************)
(* configurations                                                          *)
(***************************************************************************)
FieldOK(P, n) == Log2(n) <= (IF P = 257 THEN 7 ELSE TwoAdic(P))
AllP == <<97, 193, 257, 40961>>
FieldsFor(n) == SelectSeq(AllP, LAMBDA P : FieldOK(P, n))

\* The remainder degree acts only through the number of layers; a "schedule" is (n, B, N, L) and the
\* remainder degree of an instance is drawn (seeded) among those of RemDegs that give L layers.
RemSeq == SelectSeq([i \in 1..16 |-> i - 1], LAMBDA r : r \in RemDegs)
RemsFor(n, B, N, L) == SelectSeq(RemSeq, LAMBDA r : Supported(40961, n, B, N, r) /\ NumLayers(n, B, N, r) = L)
CfgsOf(logs, blowups) == {c \in [n : {2 ^ k : k \in logs}, B : blowups, N : Foldings, L : 0..10] :
                            c.n >= c.B /\ RemsFor(c.n, c.B, c.N, c.L) # <<>>}
Cfgs == CfgsOf(MinLogN..MaxLogN, Blowups)
BigCfgs == CfgsOf(BigLogNs, BigBlowups)

(***************************************************************************)
(* seeded ingredients                                                      *)
(***************************************************************************)
Dmax(c) == (c.n \div c.B) - 1
MaxCubeN == 64

PolyFam(P, d, fam, s, dmax) ==
  LET len == dmax + 1
      k == Rnd(s, 901) % len           \* a degree in 0..dmax
  IN Force(
     CASE fam = 0 -> PZero(d, len)
       [] fam = 1 -> [i \in 1..len |-> IF i = 1 THEN RElem(P, d, s, 1) ELSE EZero(d)]
       [] fam = 2 -> [i \in 1..len |-> IF i = k + 1 THEN EOne(d) ELSE EZero(d)]
       [] fam = 3 -> [i \in 1..len |-> IF i = len THEN RElem(P, d, s, 2) ELSE EZero(d)]
       [] fam = 4 -> LET p == RPoly(P, d, s, len)
                     IN [i \in 1..len |-> IF i = len /\ p[i] = EZero(d) THEN EOne(d) ELSE p[i]]
       [] fam = 5 -> LET p == RPoly(P, d, s + 1, k + 1)
                     IN [i \in 1..len |-> IF i <= k + 1 THEN p[i] ELSE EZero(d)], len)

\* position multisets (0-based positions in the domain of size n)
PosFam(fam, s, n, N) ==
  LET m == IF n >= N THEN n \div N ELSE 1      \* (a zero-layer schedule may have n < N)
      r(i) == Rnd(s, 700 + i) % n
      q == CASE fam = 0 -> <<r(1)>>
       [] fam = 1 -> <<r(1), r(2), r(1), r(1), r(2)>>
       [] fam = 2 -> \* one whole coset of layer 0, starting from a seeded column
                     LET p == r(1) % m  st == r(2) % N
                     IN [j \in 1..(n \div m) |-> p + ((st + j) % (n \div m)) * m]
       [] fam = 3 -> \* every position but one, descending
                     IF n <= 64 THEN LET skip == r(1) IN SelectSeq([i \in 1..n |-> n - i], LAMBDA p : p # skip)
                     ELSE [i \in 1..40 |-> r(i)]
       [] fam = 4 -> LET k == 1 + (Rnd(s, 699) % (IF n < 48 THEN n ELSE 48)) IN [i \in 1..k |-> r(i)]
       [] fam = 5 -> <<r(1), r(2), r(3), (r(1) + m) % n>>
  IN Force(q, Len(q))

Alphas(P, d, s, L, n, mode) ==
  LET w == W(P, n)
      special == CASE mode = 1 -> EZero(d)
                   [] mode = 2 -> EOne(d)
                   [] mode = 3 -> EFromBase(d, FMul(P, Offset(P), FPow(P, w, Rnd(s, 55) % n)))
                   [] OTHER -> RElem(P, d, s, 50)
      at == 1 + (Rnd(s, 56) % (L + 1))
  IN Force([l \in 1..(L + 1) |-> IF mode # 0 /\ l = at THEN special ELSE RElem(P, d, s, 60 + l)], L + 1)

\* (the evaluation vector is computed when the scenario is printed, by TLC's workers, not in Init)
MkInst(fam, P, d, n, B, N, R, poly, alphas, pos) ==
  [op |-> "fri", fam |-> fam, P |-> P, d |-> d, n |-> n, B |-> B, N |-> N, R |-> R,
   dmax |-> (n \div B) - 1, poly |-> poly, alphas |-> alphas, pos |-> pos]
WithEvals(c) ==
  [P |-> c.P, d |-> c.d, n |-> c.n, B |-> c.B, N |-> c.N, R |-> c.R, dmax |-> c.dmax, fam |-> c.fam,
   evals |-> EvalsOver(c.P, c.d, c.poly, Offset(c.P), W(c.P, c.n), c.n), alphas |-> c.alphas, pos |-> c.pos]

CfgInst(c, j) ==
  LET s == Stream(c.n + 3 * c.B + 5 * c.N + 7 * c.L, j)
      fs == FieldsFor(c.n)
      P == fs[1 + (Rnd(s, 1) % Len(fs))]
      \* extension degree 3 only up to MaxCubeN (cost), degree 2 up to 4 * MaxCubeN
      d0 == 1 + ((j + Rnd(s, 2)) % 3)
      d == IF c.n > 4 * MaxCubeN THEN 1 ELSE IF c.n > MaxCubeN /\ d0 = 3 THEN 2 ELSE d0
      L == c.L
      rs == RemsFor(c.n, c.B, c.N, c.L)
      R == rs[1 + (Rnd(s, 6) % Len(rs))]
  IN MkInst("cfg", P, d, c.n, c.B, c.N, R,
            PolyFam(P, d, (j + Rnd(s, 3)) % 6, s, Dmax(c)),
            Alphas(P, d, s, L, c.n, Rnd(s, 4) % 6),
            PosFam((j + Rnd(s, 5)) % 6, s, c.n, c.N))

S4 == <<0, 1, 2, 96>>
Ex1Pos == << <<0>>, <<7, 3>>, <<1, 5, 1>>, <<6, 4, 2, 0>>, <<3, 3>> >>
Ex1 == {MkInst("ex1", 97, 1, 8, 4, 2, 0, << <<a>>, <<b>> >>,
               << <<(a * 7 + b * 3 + 1) % 97>>, <<0>> >>, Ex1Pos[1 + ((a + b) % 5)]) : a \in 0..96, b \in Ex1B}
Ex3Alpha == << <<0>>, <<1>>, <<5>>, <<50>> >>
Ex3Pos == << <<2>>, <<1, 5>>, <<7, 0, 7>>, <<0, 1, 2, 3, 4, 5, 6>> >>
Ex3 == {MkInst("ex3", 97, 1, 8, 2, 2, 1,
               << <<S4[a]>>, <<S4[b]>>, <<S4[c]>>, <<S4[e]>> >>, <<Ex3Alpha[al], <<3>> >>, Ex3Pos[ps]) :
           a \in 1..4, b \in 1..4, c \in 1..4, e \in 1..4, al \in Ex3A, ps \in Ex3P}

\* apply_drp alone
DrpCase(j) ==
  LET s == Stream(4001, j)
      logn == 3 + (Rnd(s, 1) % 4)               \* domain 8..64
      n == 2 ^ logn
      fs == FieldsFor(n)
      P == fs[1 + (Rnd(s, 2) % Len(fs))]
      d == 1 + (j % 3)
      N == 2 ^ (1 + (Rnd(s, 3) % (IF logn < 4 THEN logn ELSE 4)))
      len == 1 + (Rnd(s, 4) % n)                 \* any degree below the domain size
      off == IF j % 4 = 0 THEN Offset(P) ELSE 1 + (Rnd(s, 5) % (P - 1))
  IN [op |-> "drp", P |-> P, d |-> d, n |-> n, N |-> N, off |-> off,
      poly |-> RPoly(P, d, s, len), alpha |-> IF j % 7 = 0 THEN EZero(d) ELSE RElem(P, d, s + 1, 1)]

PosCase(j) ==
  LET s == Stream(4002, j)
      n == 2 ^ (3 + (Rnd(s, 1) % 8))
      N == 2 ^ (1 + (Rnd(s, 2) % 3))
      parts == 2 ^ (Rnd(s, 3) % (Log2(n \div N) + 1))
      k == 1 + (Rnd(s, 4) % 12)
  IN [op |-> "pos", n |-> n, N |-> N, parts |-> IF parts > n \div N THEN 1 ELSE parts,
      pos |-> [i \in 1..k |-> Rnd(s, 10 + i) % n]]

\* production fields: name, extension degrees supported, hash functions defined for the field
RealFields == << [f |-> "f64",  exts |-> <<1, 2, 3>>, hs |-> <<"blake3_256", "blake3_192", "sha3_256", "rp64_256", "rpjive64_256">>],
                 [f |-> "f62",  exts |-> <<1, 2, 3>>, hs |-> <<"blake3_256", "blake3_192", "sha3_256", "rp62_248">>],
                 [f |-> "f128", exts |-> <<1, 2>>,    hs |-> <<"blake3_256", "blake3_192", "sha3_256">>] >>
AllBNR == {x \in [B : BlowupsAll, N : FoldingsAll, R : RemDegsAll] : TRUE}
RealCase(j) ==
  LET s == Stream(4003, j)
      fld == RealFields[1 + (j % 3)]
      n == 2 ^ (3 + (Rnd(s, 1) % (RealMaxLogN - 2)))
      cands == SetToSeq({x \in AllBNR : n >= x.B /\ SupportedSched(n, x.B, x.N, x.R)})
      x == cands[1 + (Rnd(s, 2) % Len(cands))]
      nq0 == CASE j % 5 = 0 -> 1 [] j % 5 = 1 -> 2 + (Rnd(s, 3) % 6) [] OTHER -> 8 + (Rnd(s, 3) % 60)
      nq == IF nq0 >= n THEN n - 1 ELSE nq0      \* draw_integers requires fewer values than the domain size
  IN [op |-> "real", field |-> fld.f, ext |-> fld.exts[1 + (Rnd(s, 4) % Len(fld.exts))],
      hasher |-> fld.hs[1 + ((j \div 3) % Len(fld.hs))], n |-> n, B |-> x.B, N |-> x.N, R |-> x.R,
      dmax |-> (n \div x.B) - 1, L |-> NumLayers(n, x.B, x.N, x.R),
      fam |-> (j + Rnd(s, 5)) % 6, nq |-> nq, seed |-> Rnd(s, 6), verdict |-> "accept"]

Init ==
  /\ phase = 0
  /\ \/ case \in Ex1
     \/ case \in Ex3
     \/ \E c \in Cfgs, j \in 1..Variants : case = [op |-> "cfg", c |-> c, j |-> j]
     \/ \E c \in BigCfgs : case = [op |-> "cfg", c |-> c, j |-> 0]
     \/ \E j \in 1..NDrp : case = DrpCase(j)
     \/ \E j \in 1..NPos : case = PosCase(j)
     \/ \E j \in 1..NReal : case = [op |-> "realcase", j |-> j]

Next == phase = 0 /\ phase' = 1 /\ UNCHANGED case
Spec == Init /\ [][Next]_vars

(***************************************************************************)
(* expected outcomes                                                       *)
(***************************************************************************)
FriScenario(c0) ==
  LET c == WithEvals(c0)
      t == Transcript(c)
      v == Verdict(Opts(c), c.dmax, HonestCom(c, t), HonestPrf(c, t), QueryEvals(c), c.pos, TRUE)
  IN [op |-> "fri", fam |-> c.fam, P |-> c.P, d |-> c.d, n |-> c.n, B |-> c.B, N |-> c.N, R |-> c.R,
      dmax |-> c.dmax, evals |-> c.evals, alphas |-> c.alphas, pos |-> c.pos,
      L |-> t.L, folded |-> t.folded, rows |-> t.rows, rem |-> t.rem, verdict |-> v]

DrpScenario(c) ==
  LET w == W(c.P, c.n)
      ev == EvalsOver(c.P, c.d, c.poly, c.off, w, c.n)
      exp == FoldEvals(c.P, c.d, ev, Coset(c.P, c.off, w, c.n), c.N, c.alpha)
  IN IF Assert(DrpLemma(c.P, c.d, c.poly, c.off, c.n, c.N, c.alpha), <<"coset and coefficient forms of the projection differ", c>>)
       THEN [op |-> "drp", P |-> c.P, d |-> c.d, n |-> c.n, N |-> c.N, off |-> c.off, alpha |-> c.alpha,
             evals |-> ev, exp |-> exp]
       ELSE <<>>

PosScenario(c) ==
  LET f == FoldPositions(c.pos, c.n, c.N)
  IN [op |-> "pos", n |-> c.n, N |-> c.N, parts |-> c.parts, pos |-> c.pos, folded |-> f,
      idx |-> MapIndexes(f, c.n, c.N, c.parts)]

Scenario(c) == CASE c.op = "fri" -> FriScenario(c)
                 [] c.op = "cfg" -> FriScenario(CfgInst(c.c, c.j))
                 [] c.op = "drp" -> DrpScenario(c)
                 [] c.op = "pos" -> PosScenario(c)
                 [] c.op = "realcase" -> RealCase(c.j)

Emit == PrintT(<<"REPLAY", ToJson(Scenario(case))>>)

=============================================================================
