\* The verifier AS FOUND before winterfell commit 5a1bc29 (domain inferred with
\* max_poly_degree.next_power_of_two()): TLC is expected to report LemmasHold violated on a "comp" case
\* (honest degree-1 instance rejected).  Design-level record of finding F-C08-1; not a gate.
SPECIFICATION Spec
CONSTANTS FixedDomain = FALSE
INVARIANT LemmasHold
CHECK_DEADLOCK FALSE
