----------------------------- MODULE FriSchedule -----------------------------
(* C09 — Fiat-Shamir schedule of the FRI commit phase (trace validation).
   The soundness of FRI rests on every folding challenge being drawn AFTER the layer it folds has been
   committed: a prover that can predict alpha_k before committing layer k can choose a polynomial of
   twice the degree whose excess the fold cancels (f = a(x^2) + x b(x^2) with a = low - alpha b).
   Each record is one honest run of the real FriProver / FriVerifier over real fields with a recording
   coin (the real DefaultRandomCoin plus an event log) on both sides:
       [layers, commitments, prover, verifier]
     commitments   layer commitments 1..layers followed by the remainder commitment
     prover / verifier   coin events [e, d]:  new | reseed(d = digest) | draw | ints
   Schedule:
     prover     new, (reseed(com_k), draw) for k = 1..layers, reseed(com_remainder), ints
     verifier   new, (reseed(com_k), draw) for k = 1..layers + 1        (one unused challenge at the end)
   The commitments of a run are pairwise distinct, so "absorbed before drawn" is unambiguous. *)
EXTENDS Integers, Sequences, TLC, Json, IOUtils

Rec == ndJsonDeserialize(IOEnv.TRACE)
VARIABLE l
vars == <<l>>

Ev(e, d) == [e |-> e, d |-> d]
RECURSIVE Pairs(_, _, _)
Pairs(coms, k, upto) == IF k > upto THEN <<>> ELSE <<Ev("reseed", coms[k]), Ev("draw", "")>> \o Pairs(coms, k + 1, upto)

ExpectedProver(r) == <<Ev("new", "")>> \o Pairs(r.commitments, 1, r.layers)
                     \o <<Ev("reseed", r.commitments[r.layers + 1]), Ev("ints", "")>>
ExpectedVerifier(r) == <<Ev("new", "")>> \o Pairs(r.commitments, 1, r.layers + 1)

Same(got, exp) == Len(got) = Len(exp) /\ \A i \in 1..Len(exp) : got[i].e = exp[i].e /\ got[i].d = exp[i].d

Explains(r) ==
  /\ Len(r.commitments) = r.layers + 1
  /\ \A i, j \in 1..Len(r.commitments) : i # j => r.commitments[i] # r.commitments[j]
  /\ Same(r.prover, ExpectedProver(r))
  /\ Same(r.verifier, ExpectedVerifier(r))

Init == l = 1
Next == l <= Len(Rec) /\ Explains(Rec[l]) /\ l' = l + 1
Spec == Init /\ [][Next]_vars
Progress == TLCSet(7, l)
Accepted == IF TLCGet(7) = Len(Rec) + 1 THEN TRUE ELSE Print(<<"REJECTED_AT", TLCGet(7)>>, FALSE)
=============================================================================
