\* Design-level lemmas of Fri.tla at small scope (see MCFri.tla).
SPECIFICATION Spec
CONSTANTS FixedDomain = TRUE
INVARIANT LemmasHold
CHECK_DEADLOCK FALSE
