---------------------------- MODULE GenFriAttack ----------------------------
(* C09 — FRI rejects far-from-low-degree data and inconsistent openings.

   Every case is an instance (field, schedule, evaluation vector, scripted alphas, positions) plus,
   possibly, a substitution applied to what the honest prover sends AFTER the challenges are known.
   For every case TLC evaluates Fri!Verdict on the concrete instance twice:
       strict  — openings and remainder are compared with the commitments (DefaultVerifierChannel);
       perm    — nothing is compared with the commitments (the permissive channel of the harness):
                 the purely ALGEBRAIC part of the verifier.
   The expected verdicts are these computed values, never an assumption ("probably rejects").
   Classes
     highdeg     evaluations of a polynomial of degree bound+1 .. n-1 (degree n-1 with seeded
                 coefficients = an arbitrary function on the domain), honest prover, many queries
     lowzero     a polynomial x^z * g(x) of degree above the bound (up to 2*bound - 1) whose z lowest
                 coefficients vanish (z = bound, bound / 2, or seeded), proven by the honest algorithm run
                 under PROVER-SIDE options (half the blowup, remainder degree 2R + 1: same domain, same
                 number of layers, so the remainder keeps every coefficient); the folded remainder has
                 vanishing LOW-order coefficients, which a degree count from the wrong end would skip
     killed      a polynomial of degree bound+2 whose excess TLC's alpha cancels in the first fold
                 (N = 2): the specification says ACCEPT — the inherent soundness error of FRI, hit on
                 purpose; shows that expectations are computed, both ways
     under       honest prover, polynomial of full degree, declared bound below the true degree but with
                 the same domain (bound + 1 not a power of two)
     under2      declared bound (bound+1)/2^k - 1: the verifier infers a smaller domain; positions lie in
                 the verifier's domain
     layer       one opened value of one layer changed by a seeded non-zero delta
     kernel      two values of a queried coset that are NOT pinned by the queries changed by a kernel
                 vector of the folding functional (d_j*l_j(alpha) + d_k*l_k(alpha) = 0, l = Lagrange basis
                 of the coset at alpha): passes every algebraic check (perm = accept, checked here), must
                 be rejected because the layer is committed; needs folding >= 4
     rem         one remainder coefficient changed
     remcraft    r' = r + c * PROD (x - x_i) over the last-layer points of the folded positions: same
                 length, same values at every queried point (perm = accept, checked here), must be
                 rejected because the remainder is committed
     evalchg     one of the evaluations handed to verify changed (it no longer matches the opened row)
     each        EVERY value the proof reveals — every element of every opened row of every layer and
                 every remainder coefficient — changed, one at a time (one verdict per substitution)
   A case whose strict verdict is "oob" (the transcription would index outside the delivered rows:
   outside the contract) is not printed. *)
EXTENDS Fri, Rand, Json

CONSTANTS MinLogN, MaxLogN, Variants, NReal, RealMaxLogN

BlowupsAll == {2, 4, 8, 16}
FoldingsAll == {2, 4, 8, 16}
RemDegsAll == 0..15
Classes == <<"highdeg", "lowzero", "under", "under2", "layer", "kernel", "rem", "remcraft", "evalchg", "each">>

VARIABLES case, phase
vars == <<case, phase>>

FieldOK(P, n) == Log2(n) <= (IF P = 257 THEN 7 ELSE TwoAdic(P))
AllP == <<97, 193, 257, 40961>>
FieldsFor(n) == SelectSeq(AllP, LAMBDA P : FieldOK(P, n))
RemSeq == [i \in 1..16 |-> i - 1]
RemsFor(n, B, N, L) == SelectSeq(RemSeq, LAMBDA r : Supported(40961, n, B, N, r) /\ NumLayers(n, B, N, r) = L)
Cfgs == {c \in [n : {2 ^ k : k \in MinLogN..MaxLogN}, B : BlowupsAll, N : FoldingsAll, L : 0..8] :
            c.n >= c.B /\ RemsFor(c.n, c.B, c.N, c.L) # <<>>}

NZ(P, d, e) == IF e = EZero(d) THEN EOne(d) ELSE e
\* seeded polynomial with exactly `len` coefficients and a non-zero top coefficient
FullPoly(P, d, s, len) ==
  LET p == RPoly(P, d, s, len) IN Force([i \in 1..len |-> IF i = len THEN NZ(P, d, p[i]) ELSE p[i]], len)

ManyPos(s, n) == LET k == IF n <= 32 THEN n - 1 ELSE 24 + (Rnd(s, 698) % 24)
                 IN Force([i \in 1..k |-> Rnd(s, 700 + i) % n], k)
FewPos(s, n, k) == Force([i \in 1..k |-> Rnd(s, 700 + i) % n], k)

(***************************************************************************)
(* the instance behind a case                                              *)
(***************************************************************************)
Base(c, j, cls) ==
  LET s == Stream(11 * c.n + 3 * c.B + 5 * c.N + 7 * c.L + 13 * Len(cls), j)
      fs == FieldsFor(c.n)
      P == fs[1 + (Rnd(s, 1) % Len(fs))]
      d == IF c.n > 64 THEN 1 + (Rnd(s, 2) % 2) ELSE 1 + (Rnd(s, 2) % 3)
      rs == RemsFor(c.n, c.B, c.N, c.L)
      R == rs[1 + (Rnd(s, 6) % Len(rs))]
      bound == c.n \div c.B
  IN [s |-> s, P |-> P, d |-> d, n |-> c.n, B |-> c.B, N |-> c.N, R |-> R, L |-> c.L, bound |-> bound,
      alphas |-> Force([l \in 1..(c.L + 1) |-> RElem(P, d, s, 60 + l)], c.L + 1)]

Inst(b, poly, alphas, pos) ==
  [P |-> b.P, d |-> b.d, n |-> b.n, B |-> b.B, N |-> b.N, R |-> b.R,
   evals |-> EvalsOver(b.P, b.d, poly, Offset(b.P), W(b.P, b.n), b.n), alphas |-> alphas, pos |-> pos]

\* replace element k of sequence q by v
Repl(q, k, v) == [i \in 1..Len(q) |-> IF i = k THEN v ELSE q[i]]

(***************************************************************************)
(* a case = instance + declared bound + what the verifier is shown         *)
(***************************************************************************)
Out(cls, b, ci, t, dmax, prf, qe, note) ==
  LET o == Opts(ci)
      com == HonestCom(ci, t)
      vs == Verdict(o, dmax, com, prf, qe, ci.pos, TRUE)
      vp == Verdict(o, dmax, com, prf, qe, ci.pos, FALSE)
  IN [op |-> "attack", cls |-> cls, P |-> ci.P, d |-> ci.d, n |-> ci.n, B |-> ci.B, N |-> ci.N, R |-> ci.R,
      L |-> t.L, bound |-> b.bound - 1, dmax |-> dmax, evals |-> ci.evals, alphas |-> ci.alphas, pos |-> ci.pos,
      folded |-> t.folded,
      frows |-> IF prf.rows = t.rows THEN <<>> ELSE prf.rows,
      frem |-> IF prf.rem = t.rem THEN <<>> ELSE prf.rem,
      fqe |-> IF qe = QueryEvals(ci) THEN <<>> ELSE qe,
      strict |-> vs, perm |-> vp, note |-> note]

HighDeg(c, j) ==
  LET b == Base(c, j, "highdeg")
      \* degree: bound (just above), n-1 (arbitrary function), or seeded in between
      deg == CASE j % 3 = 0 -> b.bound [] j % 3 = 1 -> b.n - 1 [] OTHER -> b.bound + (Rnd(b.s, 8) % (b.n - b.bound))
      ci == Inst(b, FullPoly(b.P, b.d, b.s, deg + 1), b.alphas, ManyPos(b.s, b.n))
      t == Transcript(ci)
  IN Out("highdeg", b, ci, t, b.bound - 1, HonestPrf(ci, t), QueryEvals(ci), <<"degree", deg>>)

LowZero(c, j) ==
  LET b == Base(c, j, "lowzero")
      deg == CASE j % 3 = 0 -> 2 * b.bound - 1 [] j % 3 = 1 -> b.bound + (b.bound \div 2) [] OTHER -> b.bound + (Rnd(b.s, 8) % b.bound)
      z == CASE j % 3 = 0 -> b.bound [] j % 3 = 1 -> b.bound [] OTHER -> 1 + (Rnd(b.s, 9) % deg)
      g == FullPoly(b.P, b.d, b.s, deg + 1)
      poly == Force([i \in 1..(deg + 1) |-> IF i <= z THEN EZero(b.d) ELSE g[i]], deg + 1)
      ci == Inst(b, poly, b.alphas, ManyPos(b.s, b.n))            \* what the verifier is told: blowup B, remainder R
      \* the prover runs the honest algorithm with HALF the blowup and remainder degree 2R + 1 over the same
      \* domain: same number of layers, and its remainder keeps all coefficients of the over-degree polynomial
      cp == [ci EXCEPT !.B = b.B \div 2, !.R = 2 * b.R + 1]
      t == Transcript(cp)
      o == Opts(ci)
      com == HonestCom(cp, t)
      prf == HonestPrf(cp, t)
      qe == QueryEvals(ci)
  IN [Out("lowzero", b, ci, t, b.bound - 1, prf, qe, <<"degree", deg, "zeros", z>>)
        EXCEPT !.strict = Verdict(o, b.bound - 1, com, prf, qe, ci.pos, TRUE),
               !.perm = Verdict(o, b.bound - 1, com, prf, qe, ci.pos, FALSE)]
     @@ [pB |-> cp.B, pR |-> cp.R]

\* f = g + x^bound * (1 + a*x), deg g < bound, and alpha_1 = -1/a with folding 2 and an even bound:
\* the first fold maps x^bound -> y^(bound/2) and a*x^(bound+1) -> alpha*a*y^(bound/2): they cancel
Killed(c, j) ==
  LET b == Base(c, j, "killed")
      a == NZ(b.P, b.d, RElem(b.P, b.d, b.s, 40))
      g == RPoly(b.P, b.d, b.s, b.bound)
      poly == Force([i \in 1..(b.bound + 2) |-> IF i <= b.bound THEN g[i] ELSE IF i = b.bound + 1 THEN EOne(b.d) ELSE a], b.bound + 2)
      al == Repl(b.alphas, 1, ENeg(b.P, EInv(b.P, a)))
      ci == Inst(b, poly, Force(al, Len(al)), ManyPos(b.s, b.n))
      t == Transcript(ci)
  IN Out("killed", b, ci, t, b.bound - 1, HonestPrf(ci, t), QueryEvals(ci), <<"alpha", al[1]>>)

Honest(b, pos) == Inst(b, FullPoly(b.P, b.d, b.s, b.bound), b.alphas, pos)

Under(c, j) ==
  LET b == Base(c, j, "under")
      ci == Honest(b, FewPos(b.s, b.n, 1 + (j % 5)))
      t == Transcript(ci)
      half == b.bound \div 2
      \* declared bounds half .. bound-2 (all infer the same domain); bound-1 would be the true bound
      dm == CASE j % 3 = 0 -> b.bound - 2 [] j % 3 = 1 -> half [] OTHER -> half + (Rnd(b.s, 9) % (b.bound - 1 - half))
  IN Out("under", b, ci, t, dm, HonestPrf(ci, t), QueryEvals(ci), <<"true", b.bound - 1>>)

Under2(c, j) ==
  LET b == Base(c, j, "under2")
      k == 1 + (j % 2)
      nb == b.bound \div (2 ^ k)                      \* declared bound + 1
      nv == nb * b.B                                  \* the verifier's domain
      q == 1 + (Rnd(b.s, 10) % 12)
      ci == Honest(b, Force([i \in 1..q |-> Rnd(b.s, 700 + i) % nv], q))
      t == Transcript(ci)
  IN Out("under2", b, ci, t, nb - 1, HonestPrf(ci, t), QueryEvals(ci), <<"true", b.bound - 1>>)

Layer(c, j) ==
  LET b == Base(c, j, "layer")
      ci == Honest(b, FewPos(b.s, b.n, 1 + (j % 6)))
      t == Transcript(ci)
      l == 1 + (Rnd(b.s, 11) % b.L)
      k == 1 + (Rnd(b.s, 12) % Len(t.rows[l]))
      col == 1 + (Rnd(b.s, 13) % b.N)
      delta == NZ(b.P, b.d, RElem(b.P, b.d, b.s, 41))
      row == Repl(t.rows[l][k], col, EAdd(b.P, t.rows[l][k][col], delta))
      rows == Repl(t.rows, l, Repl(t.rows[l], k, Force(row, b.N)))
      prf == [rows |-> rows, rem |-> t.rem, alphas |-> ci.alphas]
  IN Out("layer", b, ci, t, b.bound - 1, prf, QueryEvals(ci), <<"layer", l - 1, "row", k - 1, "col", col - 1>>)

\* positions entering layer l (1-based): the query positions for l = 1, the folded positions of l-1 above
PosInto(ci, t, l) == IF l = 1 THEN ci.pos ELSE t.folded[l - 1]
Kernel(c, j) ==
  LET b == Base(c, j, "kernel")
      ci == Honest(b, FewPos(b.s, b.n, 1 + (j % 3)))
      t == Transcript(ci)
      l == 1 + (Rnd(b.s, 11) % b.L)
      nl == b.n \div IPow(b.N, l - 1)
      m == nl \div b.N
      k == 1 + (Rnd(b.s, 12) % Len(t.rows[l]))
      p == t.folded[l][k]
      into == PosInto(ci, t, l)
      pinned == {(into[i] \div m) + 1 : i \in {x \in 1..Len(into) : into[x] % m = p}}
      free == SelectSeq([x \in 1..b.N |-> x], LAMBDA x : x \notin pinned)
      wl == FPow(b.P, W(b.P, b.n), IPow(b.N, l - 1))
      xs == RowOf(Coset(b.P, Offset(b.P), wl, nl), p, nl, b.N)
      j1 == free[1]
      j2 == free[2]
      l1 == LagBasisAt(b.P, xs, j1, ci.alphas[l], b.d)
      l2 == LagBasisAt(b.P, xs, j2, ci.alphas[l], b.d)
      cc == NZ(b.P, b.d, RElem(b.P, b.d, b.s, 42))
      both0 == l1 = EZero(b.d) /\ l2 = EZero(b.d)
      d1 == IF both0 THEN cc ELSE EMul(b.P, l2, cc)
      d2 == IF both0 THEN cc ELSE ENeg(b.P, EMul(b.P, l1, cc))
      old == t.rows[l][k]
      row == [x \in 1..b.N |-> IF x = j1 THEN EAdd(b.P, old[x], d1) ELSE IF x = j2 THEN EAdd(b.P, old[x], d2) ELSE old[x]]
      rows == Repl(t.rows, l, Repl(t.rows[l], k, Force(row, b.N)))
      prf == [rows |-> rows, rem |-> t.rem, alphas |-> ci.alphas]
  IN IF Len(free) < 2 THEN [op |-> "none"]
     ELSE Out("kernel", b, ci, t, b.bound - 1, prf, QueryEvals(ci), <<"layer", l - 1, "row", k - 1, "cols", j1 - 1, j2 - 1>>)

Rem(c, j) ==
  LET b == Base(c, j, "rem")
      ci == Honest(b, FewPos(b.s, b.n, 1 + (j % 6)))
      t == Transcript(ci)
      k == 1 + (Rnd(b.s, 14) % Len(t.rem))
      delta == NZ(b.P, b.d, RElem(b.P, b.d, b.s, 43))
      rem == Repl(t.rem, k, EAdd(b.P, t.rem[k], delta))
      prf == [rows |-> t.rows, rem |-> Force(rem, Len(rem)), alphas |-> ci.alphas]
  IN Out("rem", b, ci, t, b.bound - 1, prf, QueryEvals(ci), <<"coef", k - 1>>)

RemCraft(c, j) ==
  LET b == Base(c, j, "remcraft")
      len == (b.n \div IPow(b.N, b.L)) \div b.B           \* number of remainder coefficients
      q == 1 + (Rnd(b.s, 15) % (IF len - 1 < 6 THEN len - 1 ELSE 6))
      ci == Honest(b, FewPos(b.s, b.n, q))
      t == Transcript(ci)
      last == IF b.L = 0 THEN Dedup(ci.pos) ELSE t.folded[b.L]
      wl == FPow(b.P, W(b.P, b.n), IPow(b.N, b.L))
      xs == [i \in 1..Len(last) |-> EFromBase(b.d, FMul(b.P, Offset(b.P), FPow(b.P, wl, last[i])))]
      mpoly == PFromRoots(b.P, Force(xs, Len(xs)), b.d)   \* constant term first, Len(last) + 1 coefficients
      cc == NZ(b.P, b.d, RElem(b.P, b.d, b.s, 44))
      \* remainder is sent highest degree first: coefficient of x^e is rem[len - e]
      rem == [i \in 1..len |-> LET e == len - i IN
                IF e + 1 <= Len(mpoly) THEN EAdd(b.P, t.rem[i], EMul(b.P, cc, mpoly[e + 1])) ELSE t.rem[i]]
      prf == [rows |-> t.rows, rem |-> Force(rem, len), alphas |-> ci.alphas]
  IN IF len < 2 \/ Len(last) + 1 > len THEN [op |-> "none"]
     ELSE Out("remcraft", b, ci, t, b.bound - 1, prf, QueryEvals(ci), <<"points", Len(last)>>)

EvalChg(c, j) ==
  LET b == Base(c, j, "evalchg")
      ci == Honest(b, FewPos(b.s, b.n, 1 + (j % 6)))
      t == Transcript(ci)
      qe0 == QueryEvals(ci)
      k == 1 + (Rnd(b.s, 16) % Len(qe0))
      delta == NZ(b.P, b.d, RElem(b.P, b.d, b.s, 45))
      qe == Repl(qe0, k, EAdd(b.P, qe0[k], delta))
  IN Out("evalchg", b, ci, t, b.bound - 1, HonestPrf(ci, t), Force(qe, Len(qe)), <<"query", k - 1>>)

\* every revealed value, one substitution at a time; l = 0 addresses the remainder
Each(c, j) ==
  LET b == Base(c, j, "each")
      ci == Honest(b, FewPos(b.s, b.n, 1 + (j % 4)))
      t == Transcript(ci)
      o == Opts(ci)
      com == HonestCom(ci, t)
      qe == QueryEvals(ci)
      delta == NZ(b.P, b.d, RElem(b.P, b.d, b.s, 46))
      maxrows == IF b.L = 0 THEN 0 ELSE Len(t.rows[1])       \* layer 0 has the most rows
      cells == {x \in (1..b.L) \X (1..maxrows) \X (1..b.N) : x[2] <= Len(t.rows[x[1]])}
      lsubs == SetToSeq(cells)
      vl(x) == LET row == Repl(t.rows[x[1]][x[2]], x[3], EAdd(b.P, t.rows[x[1]][x[2]][x[3]], delta))
                   rows == Repl(t.rows, x[1], Repl(t.rows[x[1]], x[2], Force(row, b.N)))
               IN Verdict(o, b.bound - 1, com, [rows |-> rows, rem |-> t.rem, alphas |-> ci.alphas], qe, ci.pos, TRUE)
      vr(k) == LET rem == Repl(t.rem, k, EAdd(b.P, t.rem[k], delta))
               IN Verdict(o, b.bound - 1, com, [rows |-> t.rows, rem |-> Force(rem, Len(rem)), alphas |-> ci.alphas], qe, ci.pos, TRUE)
      subs == [i \in 1..Len(lsubs) |-> [l |-> lsubs[i][1], pos |-> t.folded[lsubs[i][1]][lsubs[i][2]], col |-> lsubs[i][3] - 1, strict |-> vl(lsubs[i])]]
              \o [k \in 1..Len(t.rem) |-> [l |-> 0, pos |-> k - 1, col |-> 0, strict |-> vr(k)]]
  IN [op |-> "attack", cls |-> "each", P |-> ci.P, d |-> ci.d, n |-> ci.n, B |-> ci.B, N |-> ci.N, R |-> ci.R,
      L |-> t.L, bound |-> b.bound - 1, dmax |-> b.bound - 1, evals |-> ci.evals, alphas |-> ci.alphas, pos |-> ci.pos,
      folded |-> t.folded, delta |-> delta, subs |-> subs,
      strict |-> IF \A i \in 1..Len(subs) : subs[i].strict # "accept" THEN "reject-each" ELSE "accept", perm |-> "any", note |-> <<"substitutions", Len(subs)>>]

Applicable(cls, c) ==
  CASE cls \in {"layer"} -> c.L >= 1
    [] cls = "kernel" -> c.L >= 1 /\ c.N >= 4
    [] cls = "killed" -> c.L >= 1 /\ c.N = 2 /\ c.n \div c.B >= 2 /\ c.n \div c.B + 2 <= c.n
    [] cls = "under" -> c.n \div c.B >= 4
    [] cls = "under2" -> c.n \div c.B >= 4
    [] cls = "remcraft" -> (c.n \div IPow(c.N, c.L)) \div c.B >= 2
    [] cls = "each" -> c.n <= 64
    [] cls = "lowzero" -> c.B >= 4 /\ c.n \div c.B >= 2 /\ c.L >= 1
    [] OTHER -> c.n \div c.B < c.n

Build(cls, c, j) ==
  CASE cls = "highdeg" -> HighDeg(c, j) [] cls = "lowzero" -> LowZero(c, j) [] cls = "killed" -> Killed(c, j) [] cls = "under" -> Under(c, j)
    [] cls = "under2" -> Under2(c, j)   [] cls = "layer" -> Layer(c, j)   [] cls = "kernel" -> Kernel(c, j)
    [] cls = "rem" -> Rem(c, j)         [] cls = "remcraft" -> RemCraft(c, j) [] cls = "evalchg" -> EvalChg(c, j)
    [] cls = "each" -> Each(c, j)

(***************************************************************************)
(* real fields: classes whose rejection is deterministic (or fails with    *)
(* probability < 2^-40): the verdicts are those TLC computes for the same  *)
(* classes on the toy instances                                            *)
(***************************************************************************)
RealFields == << [f |-> "f64",  exts |-> <<1, 2, 3>>, hs |-> <<"blake3_256", "blake3_192", "sha3_256", "rp64_256", "rpjive64_256">>],
                 [f |-> "f62",  exts |-> <<1, 2, 3>>, hs |-> <<"blake3_256", "blake3_192", "sha3_256", "rp62_248">>],
                 [f |-> "f128", exts |-> <<1, 2>>,    hs |-> <<"blake3_256", "blake3_192", "sha3_256">>] >>
RealClasses == <<"layer", "kernel", "rem", "remcraft", "under", "under2", "evalchg", "each">>
AllBNR == {x \in [B : BlowupsAll, N : FoldingsAll, R : RemDegsAll] : TRUE}
RealCase(j) ==
  LET s == Stream(4004, j)
      cls == RealClasses[1 + (j % Len(RealClasses))]
      fld == RealFields[1 + ((j \div 8) % 3)]
      n == 2 ^ (5 + (Rnd(s, 1) % (RealMaxLogN - 4)))
      ok(x) == /\ n >= x.B /\ SupportedSched(n, x.B, x.N, x.R)
               /\ LET L == NumLayers(n, x.B, x.N, x.R)
                      c == [n |-> n, B |-> x.B, N |-> x.N, L |-> L]
                  IN (cls = "each" \/ Applicable(cls, c)) /\ (cls \in {"under", "under2"} => n \div x.B >= 8)
      cands == SetToSeq({x \in AllBNR : ok(x)})
      x == cands[1 + (Rnd(s, 2) % Len(cands))]
      bound == n \div x.B
      under == IF cls = "under" THEN bound - 2 - (Rnd(s, 7) % (bound \div 2 - 1))
               ELSE IF cls = "under2" THEN bound \div (2 ^ (1 + (j % 2))) - 1 ELSE bound - 1
      \* crafted remainders need fewer last-layer points than remainder coefficients
      nq == CASE cls \in {"under", "under2"} -> 40 + (Rnd(s, 3) % 24)
              [] cls = "remcraft" -> 1
              [] cls = "kernel" -> 1 + (Rnd(s, 3) % 3)
              [] cls = "each" -> 1 + (Rnd(s, 3) % 4)
              [] OTHER -> 1 + (Rnd(s, 3) % 40)
      vdom == IF cls = "under2" THEN (under + 1) * x.B ELSE n
  IN [op |-> "realattack", cls |-> cls, field |-> fld.f, ext |-> fld.exts[1 + (Rnd(s, 4) % Len(fld.exts))],
      hasher |-> fld.hs[1 + ((j \div 3) % Len(fld.hs))], n |-> n, B |-> x.B, N |-> x.N, R |-> x.R,
      bound |-> bound - 1, dmax |-> under, L |-> NumLayers(n, x.B, x.N, x.R),
      nq |-> IF nq >= vdom THEN vdom - 1 ELSE nq, drawdomain |-> vdom, seed |-> Rnd(s, 6),
      strict |-> "reject", perm |-> IF cls \in {"kernel", "remcraft"} THEN "accept" ELSE "any"]

Init ==
  /\ phase = 0
  /\ \/ \E c \in Cfgs, k \in 1..Len(Classes), j \in 1..Variants :
          Applicable(Classes[k], c) /\ case = [op |-> "case", cls |-> Classes[k], c |-> c, j |-> j]
     \/ \E c \in Cfgs : Applicable("killed", c) /\ case = [op |-> "case", cls |-> "killed", c |-> c, j |-> 1]
     \/ \E j \in 1..NReal : case = [op |-> "realcase", j |-> j]
Next == phase = 0 /\ phase' = 1 /\ UNCHANGED case
Spec == Init /\ [][Next]_vars

Scenario(c) == IF c.op = "realcase" THEN RealCase(c.j) ELSE Build(c.cls, c.c, c.j)
Emit == LET sc == Scenario(case)
        IN IF sc.op = "none" \/ (sc.op = "attack" /\ sc.strict = "oob") THEN TRUE
           ELSE PrintT(<<"REPLAY", ToJson(sc)>>)
=============================================================================
