SPECIFICATION Spec
CONSTANTS DoEx1 = FALSE  DoEx3 = FALSE  MinLogN = 10  MaxLogN = 10  Variants = 1  NDrp = 0  NPos = 0
  Blowups = {4}  Foldings = {4}  RemDegs = {3}
ACTION_CONSTRAINT Emit
CHECK_DEADLOCK FALSE
