\* C08 thorough tier: all 97^2 polynomials of degree <= 1, the whole "ex3" family, every schedule with
\* domain 8..1024 (14 variants each up to 256, 1 variant above), more apply_drp / position cases.
SPECIFICATION Spec
CONSTANTS NReal = 3000  RealMaxLogN = 14  MinLogN = 3  MaxLogN = 8  Variants = 14  NDrp = 1500  NPos = 3000
  Ex1B <- Ex1BAll  Ex3A = {1, 2, 3, 4}  Ex3P = {1, 2, 3, 4}  BigLogNs = {9, 10}  BigBlowups <- BlowupsAll
  Blowups <- BlowupsAll  Foldings <- FoldingsAll  RemDegs <- RemDegsAll
ACTION_CONSTRAINT Emit
CHECK_DEADLOCK FALSE
