-------------------------------- MODULE Fri --------------------------------
(* C08 / C09 — the FRI low-degree test of winter-fri, over the toy fields of FieldP.tla (mechanism F).

   DENOTATIONAL part (the meaning of the prover's messages)
     * the evaluation domain of EVERY layer is the coset  offset * <w_l>,  offset = Gen(P) (FriOptions::
       domain_offset), w_l = w^(N^l), w the primitive n-th root of unity, elements in natural order;
     * the degree-respecting projection BY DEFINITION: element i of layer l+1 is the value at alpha_l of
       the unique polynomial of degree < N through the N points of coset i of layer l,
             { (offset * w_l^(i + j*m), layer_l[i + j*m]) : j = 0..N-1 },   m = n_l / N
       (InterpEvalAt is the Lagrange formula itself);
     * the coefficient form of the same projection, as documented for folding::apply_drp: split
       f(x) = SUM_j x^j f_j(x^N), f'(y) = SUM_j alpha^j f_j(y), evaluated over offset^N * <w^N>
       (FoldCoeffs); the two are checked equal by TLC (DrpLemma) and both are compared with the code;
     * the remainder is the interpolant of the last layer over offset * <w_L>, truncated to
       n_L / blowup coefficients, sent highest degree first (InterpCoef is the inverse-DFT formula for
       the coefficients of the interpolant over a coset of a cyclic group; RemainderLemma checks it
       against Lagrange interpolation);
     * positions: fold_positions = distinct residues modulo the folded domain size; a proof layer
       carries, per folded position p, the row (layer_l[p + j*m])_j;
     * the number of layers: FriOptions::num_fri_layers.

   CODE-SHAPED part: Verdict transcribes FriVerifier::new + FriVerifier::verify (degree-truncation
   rule, layer/commitment/folding/remainder checks, in the order the code performs them).  A
   commitment is the committed vector itself (ideal hash, mechanism C): `strict = TRUE` models
   DefaultVerifierChannel (openings and remainder are compared with what was committed),
   `strict = FALSE` models a channel that checks nothing (the vacuity guard of C09: a crafted forgery
   must pass every ALGEBRAIC check, so that only the commitment comparison can reject it).

   An element of the field is a tuple of d base coordinates (d = 1, 2, 3), as in FieldP/PolyP. *)
EXTENDS PolyP, TLC, FiniteSets, SequencesExt

Force(f, n) == SubSeq(f, 1, n)      \* makes TLC build the sequence once (lazy functions recompute)

RECURSIVE Log2(_)
Log2(n) == IF n <= 1 THEN 0 ELSE 1 + Log2(n \div 2)
IsPow2(n) == n >= 1 /\ 2 ^ Log2(n) = n
NextPow2(n) == IF n <= 1 THEN 1 ELSE IF IsPow2(n) THEN n ELSE 2 ^ (Log2(n) + 1)

Offset(P) == Gen(P)
W(P, n) == RootOfUnity(P, Log2(n))

(***************************************************************************)
(* schedule                                                                *)
(***************************************************************************)
\* FriOptions::num_fri_layers: fold while the domain is larger than (R + 1) * blowup
RECURSIVE NumLayers(_, _, _, _)
NumLayers(n, B, N, R) == IF n > (R + 1) * B THEN 1 + NumLayers(n \div N, B, N, R) ELSE 0

RECURSIVE IPow(_, _)
IPow(b, e) == IF e = 0 THEN 1 ELSE b * IPow(b, e - 1)

\* A parameter combination is supported when the schedule is well formed: the degree bound
\* (n_l / B) is divisible by the folding factor at every layer that is folded (otherwise the verifier
\* reports DegreeTruncation and the prover would be left with an empty remainder), the domain exists in
\* the field, and the prover channel accepts the domain (>= 8).
SupportedSched(n, B, N, R) ==
  /\ IsPow2(n) /\ IsPow2(B) /\ B >= 2 /\ n >= B /\ n >= 8
  /\ N \in {2, 4, 8, 16}
  /\ \A l \in 0..(NumLayers(n, B, N, R) - 1) :
        LET nl == n \div IPow(N, l) IN nl >= N /\ (nl \div B) % N = 0 /\ nl % B = 0
Supported(P, n, B, N, R) == SupportedSched(n, B, N, R) /\ Log2(n) <= TwoAdic(P)

(***************************************************************************)
(* positions                                                               *)
(***************************************************************************)
Dedup(s) ==
  LET RECURSIVE D(_, _)
      D(i, acc) == IF i > Len(s) THEN acc
                   ELSE IF \E k \in 1..Len(acc) : acc[k] = s[i] THEN D(i + 1, acc)
                   ELSE D(i + 1, Append(acc, s[i]))
  IN D(1, <<>>)
\* folding::fold_positions (first-occurrence order; the SET is what the definition fixes)
FoldPositions(pos, n, N) == Dedup(Force([i \in 1..Len(pos) |-> pos[i] % (n \div N)], Len(pos)))
\* utils::map_positions_to_indexes: with k partitions, partition p holds the positions = p (mod k)
MapIndexes(pos, n, N, parts) ==
  IF parts = 1 THEN pos
  ELSE LET psize == (n \div N) \div parts
       IN [i \in 1..Len(pos) |-> (pos[i] % parts) * psize + ((pos[i] - (pos[i] % parts)) \div parts)]
\* folded positions of every layer: FoldedAll(...)[l] are the positions queried in layer l (1-based)
RECURSIVE FoldedAll(_, _, _, _)
FoldedAll(pos, n, N, L) ==
  IF L = 0 THEN <<>>
  ELSE LET f == FoldPositions(pos, n, N) IN <<f>> \o FoldedAll(f, n \div N, N, L - 1)

(***************************************************************************)
(* domains and the degree-respecting projection                            *)
(***************************************************************************)
\* offset * w^i, i = 0..n-1 (1-based sequence)
Coset(P, off, w, n) == Force([i \in 1..n |-> FMul(P, off, FPow(P, w, i - 1))], n)

\* value of the polynomial c (extension coefficients, constant term first) at the BASE-field point x:
\* multiplication by a base element acts coordinate by coordinate, so this is Horner's rule on each
\* coordinate (FoldRight is evaluated iteratively by TLC; PolyP!PEval recurses once per coefficient)
EvalBase(P, c, x, d) ==
  Force([t \in 1..d |-> FoldRight(LAMBDA ck, acc : (ck[t] + x * acc) % P, c, 0)], d)
\* evaluations of c over off * w^i, i = 0..n-1
EvalsOver(P, d, c, off, w, n) ==
  LET dom == Coset(P, off, w, n) IN Force([i \in 1..n |-> EvalBase(P, c, dom[i], d)], n)

ESum(P, d, f, n) ==
  LET RECURSIVE S(_)
      S(i) == IF i > n THEN EZero(d) ELSE EAdd(P, f[i], S(i + 1))
  IN S(1)

\* value at `a` of the j-th Lagrange basis polynomial of the (distinct, base-field) points xs
LagBasisAt(P, xs, j, a, d) ==
  LET RECURSIVE Num(_)
      Num(k) == IF k > Len(xs) THEN EOne(d)
                ELSE IF k = j THEN Num(k + 1)
                ELSE EMul(P, ESub(P, a, EFromBase(d, xs[k])), Num(k + 1))
      RECURSIVE Den(_)
      Den(k) == IF k > Len(xs) THEN 1
                ELSE IF k = j THEN Den(k + 1)
                ELSE FMul(P, FSub(P, xs[j], xs[k]), Den(k + 1))
  IN EMulBase(P, Num(1), FInv(P, Den(1)))
\* value at `a` of the interpolant through (xs[j], ys[j])
InterpEvalAt(P, xs, ys, a, d) ==
  ESum(P, d, Force([j \in 1..Len(xs) |-> EMul(P, ys[j], LagBasisAt(P, xs, j, a, d))], Len(xs)), Len(xs))

\* row i (0-based) of a layer of size n: the N values / points of coset i
RowOf(v, i, n, N) == LET m == n \div N IN Force([j \in 1..N |-> v[i + (j - 1) * m + 1]], N)

\* one application of the projection to a whole layer `ev` over the points `dom`
FoldEvals(P, d, ev, dom, N, alpha) ==
  LET n == Len(ev)  m == n \div N
  IN Force([i \in 1..m |-> InterpEvalAt(P, RowOf(dom, i - 1, n, N), RowOf(ev, i - 1, n, N), alpha, d)], m)

\* all layers: <<layer_0 (the input), ..., layer_L>>; every layer lives over Offset * <w^(N^l)>
RECURSIVE BuildLayers(_, _, _, _, _, _, _)
BuildLayers(P, d, ev, w, N, alphas, L) ==
  IF L = 0 THEN <<ev>>
  ELSE LET nxt == FoldEvals(P, d, ev, Coset(P, Offset(P), w, Len(ev)), N, alphas[1])
       IN <<ev>> \o BuildLayers(P, d, nxt, FPow(P, w, N), N, Tail(alphas), L - 1)

\* coefficient form (documentation of folding::apply_drp): f'(y) = SUM_j alpha^j f_j(y)
FoldCoeffs(P, d, c, N, alpha) ==
  LET m == (Len(c) + N - 1) \div N
  IN [k \in 1..m |->
        ESum(P, d, Force([j \in 1..N |-> EMul(P, EPow(P, alpha, j - 1), PCoef(c, (k - 1) * N + j, d))], N), N)]

(***************************************************************************)
(* remainder                                                               *)
(***************************************************************************)
\* coefficient of x^k of the interpolant of ys over off * w^i (i = 0..n-1):
\*   c_k = n^-1 * off^-k * SUM_i ys[i] * w^(-i k)
InterpCoef(P, d, ys, off, w, k) ==
  LET n == Len(ys)
      wk == FPow(P, FInv(P, w), k)
      pw == Coset(P, 1, wk, n)
      s == ESum(P, d, Force([i \in 1..n |-> EMulBase(P, ys[i], pw[i])], n), n)
  IN EMulBase(P, s, FMul(P, FInv(P, n % P), FPow(P, FInv(P, off), k)))
\* the remainder message: the first n/B coefficients of the interpolant, highest degree first
Remainder(P, d, last, w, B) ==
  LET m == Len(last) \div B
      co == Force([k \in 1..m |-> InterpCoef(P, d, last, Offset(P), w, k - 1)], m)
  IN Force([k \in 1..m |-> co[m + 1 - k]], m)

\* Horner evaluation of a coefficient list given highest degree first
RECURSIVE HornerRev(_, _, _, _)
HornerRev(P, p, x, d) ==
  IF p = <<>> THEN EZero(d)
  ELSE EAdd(P, EMul(P, HornerRev(P, SubSeq(p, 1, Len(p) - 1), x, d), x), p[Len(p)])

(***************************************************************************)
(* the honest transcript of an instance                                    *)
(*   c = [P, d, n, B, N, R, evals, alphas, pos]                            *)
(***************************************************************************)
NL(c) == NumLayers(c.n, c.B, c.N, c.R)

Transcript(c) ==
  LET L == NL(c)
      w == W(c.P, c.n)
      lay == BuildLayers(c.P, c.d, c.evals, w, c.N, c.alphas, L)
      fp == FoldedAll(c.pos, c.n, c.N, L)
      rows == Force([l \in 1..L |-> LET nl == c.n \div IPow(c.N, l - 1)
                                    IN Force([k \in 1..Len(fp[l]) |-> RowOf(lay[l], fp[l][k], nl, c.N)], Len(fp[l]))], L)
      rem == Remainder(c.P, c.d, lay[L + 1], FPow(c.P, w, IPow(c.N, L)), c.B)
  IN [L |-> L, layers |-> lay, folded |-> fp, rows |-> rows, rem |-> rem]

(***************************************************************************)
(* the verifier (FriVerifier::new + verify), code shaped                   *)
(*   o    = [P, d, B, N, R]            options and field                   *)
(*   dmax = declared max_poly_degree                                       *)
(*   com  = [layers: committed layer vectors, idx: index sequences the     *)
(*           openings were produced for, rem: committed remainder]         *)
(*   prf  = [rows: per layer the opened rows, rem: remainder]              *)
(*   qe, pos = evaluations and positions handed to verify                  *)
(* Result: "accept" or the name of the first failing check; "oob" when the *)
(* code would index outside the rows delivered by the channel (outside the *)
(* contract: never generated as an expectation).                           *)
(***************************************************************************)
\* FriVerifier::new: one alpha per commitment (layers + remainder); truncation rule on all but the last
RECURSIVE NewTrunc(_, _, _, _)
NewTrunc(mdp1, N, depth, ncom) ==
  IF depth >= ncom THEN FALSE
  ELSE IF depth # ncom - 1 /\ mdp1 % N # 0 THEN TRUE
  ELSE NewTrunc(mdp1 \div N, N, depth + 1, ncom)

\* get_query_values
QueryValues(rows, pos, folded, n, N) ==
  LET m == n \div N
      idx(p) == CHOOSE k \in 1..Len(folded) : folded[k] = p % m
  IN Force([i \in 1..Len(pos) |-> rows[idx(pos[i])][(pos[i] \div m) + 1]], Len(pos))
QueryValuesInRange(rows, pos, folded, n, N) ==
  LET m == n \div N
  IN /\ Len(folded) <= Len(rows)
     /\ \A i \in 1..Len(pos) : pos[i] \div m < N

RECURSIVE VLoop(_, _, _, _, _, _, _, _, _, _, _)
VLoop(o, com, prf, strict, depth, Lv, ns, g, mdp1, pos, ev) ==
  IF depth = Lv
    THEN \* remainder
         IF strict /\ prf.rem # com.rem THEN "RemainderCommitmentMismatch"
         ELSE IF Len(prf.rem) > mdp1 THEN "RemainderDegreeMismatch"
         ELSE IF \E i \in 1..Len(pos) :
                    HornerRev(o.P, prf.rem, EFromBase(o.d, FMul(o.P, Offset(o.P), FPow(o.P, g, pos[i]))), o.d) # ev[i]
                THEN "InvalidRemainderFolding"
         ELSE "accept"
    ELSE LET folded == FoldPositions(pos, ns, o.N)
             idx == MapIndexes(folded, ns, o.N, 1)
             rows == prf.rows[depth + 1]
         IN IF strict /\ (idx # com.idx[depth + 1]
                          \/ Len(rows) # Len(idx)
                          \/ \E k \in 1..Len(idx) : rows[k] # RowOf(com.layers[depth + 1], idx[k], Len(com.layers[depth + 1]), o.N))
              THEN "LayerCommitmentMismatch"
            ELSE IF ~QueryValuesInRange(rows, pos, folded, ns, o.N) THEN "oob"
            ELSE IF QueryValues(rows, pos, folded, ns, o.N) # ev THEN "InvalidLayerFolding"
            ELSE LET m == ns \div o.N
                     zeta == FPow(o.P, g, m)         \* folding_roots[1] (constant over the layers)
                     xs(p) == Force([j \in 1..o.N |-> FMul(o.P, FMul(o.P, FPow(o.P, g, p), Offset(o.P)), FPow(o.P, zeta, j - 1))], o.N)
                     nev == Force([k \in 1..Len(folded) |-> InterpEvalAt(o.P, xs(folded[k]), rows[k], prf.alphas[depth + 1], o.d)], Len(folded))
                 IN IF mdp1 % o.N # 0 THEN "DegreeTruncation"
                    ELSE VLoop(o, com, prf, strict, depth + 1, Lv, m, FPow(o.P, g, o.N), mdp1 \div o.N, folded, nev)

\* The domain the verifier infers from the declared bound.  The contract of FriVerifier::new is
\* "bound + 1 is a power of two"; the domain of a polynomial with dmax + 1 coefficients is
\* NextPow2(dmax + 1) * blowup (VDomain with fixed = TRUE).  The code as found computed
\* max_poly_degree.next_power_of_two() * blowup, which differs exactly for dmax = 1 (next_power_of_two(1)
\* = 1): fixed = FALSE transcribes that; honest degree-1 instances are then rejected (finding F-C08-1,
\* repaired in winterfell commit 5a1bc29; MCFri_found.cfg shows the design-level counterexample).
VDomain(dmax, B, fixed) == (IF fixed THEN NextPow2(dmax + 1) ELSE NextPow2(dmax)) * B

VerdictF(o, dmax, com, prf, qe, pos, strict, fixed) ==
  LET nv == VDomain(dmax, o.B, fixed)
      g == W(o.P, nv)
      ncom == Len(com.layers) + 1
      Lv == NumLayers(nv, o.B, o.N, o.R)
  IN IF NewTrunc(dmax + 1, o.N, 0, ncom) THEN "DegreeTruncation"
     ELSE IF Len(qe) # Len(pos) THEN "NumPositionEvaluationMismatch"
     ELSE IF Lv > Len(prf.rows) THEN "oob"
     ELSE VLoop(o, com, prf, strict, 0, Lv, nv, g, dmax + 1, pos, qe)
Verdict(o, dmax, com, prf, qe, pos, strict) == VerdictF(o, dmax, com, prf, qe, pos, strict, TRUE)

\* what the honest prover commits to and sends
HonestCom(c, t) == [layers |-> SubSeq(t.layers, 1, t.L), idx |-> t.folded, rem |-> t.rem]
HonestPrf(c, t) == [rows |-> t.rows, rem |-> t.rem, alphas |-> c.alphas]
Opts(c) == [P |-> c.P, d |-> c.d, B |-> c.B, N |-> c.N, R |-> c.R]
QueryEvals(c) == Force([i \in 1..Len(c.pos) |-> c.evals[c.pos[i] + 1]], Len(c.pos))

(***************************************************************************)
(* design-level lemmas (checked by TLC in the MC configurations)           *)
(***************************************************************************)
\* coset interpolation = coefficient form, for the evaluations of polynomial `poly` over off * <w>
DrpLemma(P, d, poly, off, n, N, alpha) ==
  LET w == W(P, n)
      ev == EvalsOver(P, d, poly, off, w, n)
      byCoset == FoldEvals(P, d, ev, Coset(P, off, w, n), N, alpha)
      fc == FoldCoeffs(P, d, poly, N, alpha)
      byCoef == PEvalDomain(P, Force(fc, Len(fc)), FPow(P, off, N), FPow(P, w, N), n \div N, d)
  IN /\ byCoset = byCoef
     /\ ev = PEvalDomain(P, poly, off, w, n, d)      \* EvalBase agrees with PolyP's Horner evaluation
\* inverse-DFT coefficients = Lagrange interpolation
RemainderLemma(P, d, ys, off, w) ==
  LET n == Len(ys)
      dom == Coset(P, off, w, n)
  IN [k \in 1..n |-> InterpCoef(P, d, ys, off, w, k - 1)]
       = PInterpolate(P, [i \in 1..n |-> EFromBase(d, dom[i])], ys, d)
=============================================================================
