\* C09 thorough tier: every schedule with domain 8..256, 16 cases per applicable class, + real-field cases.
SPECIFICATION Spec
CONSTANTS MinLogN = 3  MaxLogN = 8  Variants = 16  NReal = 4000  RealMaxLogN = 12
ACTION_CONSTRAINT Emit
CHECK_DEADLOCK FALSE
