-------------------------------- MODULE MCFri --------------------------------
(* Design-level lemmas behind Fri.tla, checked by TLC on every instance of a small scope (no binding
   to the code here; a failure is a specification error):
     DrpLemma        the degree-respecting projection by coset interpolation (the definition used for
                     the layers) = the coefficient form documented for folding::apply_drp
                     (f'(y) = SUM_j alpha^j f_j(y) over offset^N * <w^N>), and the coordinate-wise
                     evaluation EvalBase = PolyP's Horner evaluation;
     RemainderLemma  the inverse-DFT formula for the interpolant's coefficients = Lagrange interpolation
                     (PolyP!PInterpolate);
     FoldDegree      folding evaluations of a polynomial of degree < n/B gives evaluations (over
                     Offset * <w^N>, the convention of every layer) of a polynomial of degree < n/(B*N):
                     the high coefficients of the next layer's interpolant vanish;
     Complete        the verifier of Fri.tla accepts the honest transcript of every polynomial
                     c0 + c1*x over F_97 with small coefficients, degree bound 1 (the smallest
                     non-trivial bound).  With FixedDomain = FALSE (MCFri_found.cfg) the model of the
                     verifier AS FOUND is checked instead and TLC reports the violation that became
                     finding F-C08-1. *)
EXTENDS Fri, Rand

CONSTANT FixedDomain

VARIABLES lem, phase
vars == <<lem, phase>>

Small(P) == <<0, 1, 2, P - 1>>
PolysOver(P, len) == {[i \in 1..len |-> <<Small(P)[s[i]]>>] : s \in [1..len -> 1..4]}

DrpCases ==
  {[k |-> "drp", P |-> 97, d |-> 1, poly |-> p, off |-> off, n |-> n, N |-> N, alpha |-> <<a>>] :
       p \in PolysOver(97, 3), off \in {5, 96}, n \in {8}, N \in {2, 4, 8}, a \in {50}}
  \cup {[k |-> "drp", P |-> f[1], d |-> f[2], poly |-> RPoly(f[1], f[2], Stream(77, j), 1 + (j % 16)), off |-> 1 + (Rnd(j, 3) % (f[1] - 1)),
         n |-> 16, N |-> 2 ^ (1 + (j % 4)), alpha |-> RElem(f[1], f[2], Stream(78, j), 1)] :
       f \in {<<97, 2>>, <<193, 3>>, <<257, 1>>, <<40961, 2>>}, j \in 1..12}
RemCases ==
  {[k |-> "rem", P |-> 97, d |-> 1, ys |-> p, off |-> off, n |-> 4] : p \in PolysOver(97, 4), off \in {5}}
  \cup {[k |-> "rem", P |-> f[1], d |-> f[2], ys |-> RPoly(f[1], f[2], Stream(79, j), 2 ^ (1 + (j % 4))), off |-> 1 + (Rnd(j, 5) % (f[1] - 1)),
         n |-> 2 ^ (1 + (j % 4))] : f \in {<<97, 3>>, <<193, 1>>, <<40961, 2>>}, j \in 1..8}
DegCases ==
  {[k |-> "deg", P |-> f[1], d |-> f[2], n |-> 32, B |-> B, N |-> N, poly |-> RPoly(f[1], f[2], Stream(80, j), 32 \div B),
    alpha |-> RElem(f[1], f[2], Stream(81, j), 1)] :
       f \in {<<97, 1>>, <<193, 2>>, <<40961, 3>>}, B \in {2, 4}, N \in {2, 4}, j \in 1..4}

CompCases ==
  {[k |-> "comp", P |-> 97, d |-> 1, n |-> 8, B |-> 4, N |-> 2, R |-> 0, dmax |-> 1,
    poly |-> << <<Small(97)[a]>>, <<Small(97)[b]>> >>, alphas |-> << <<al>>, <<0>> >>, pos |-> ps] :
       a \in 1..4, b \in 1..4, al \in {0, 7}, ps \in {<<3>>, <<6, 1, 6>>}}

Holds(c) ==
  CASE c.k = "drp" -> DrpLemma(c.P, c.d, c.poly, c.off, c.n, c.N, c.alpha)
    [] c.k = "rem" -> RemainderLemma(c.P, c.d, c.ys, c.off, W(c.P, c.n))
    [] c.k = "comp" ->
         LET ci == [P |-> c.P, d |-> c.d, n |-> c.n, B |-> c.B, N |-> c.N, R |-> c.R, alphas |-> c.alphas, pos |-> c.pos,
                    evals |-> EvalsOver(c.P, c.d, c.poly, Offset(c.P), W(c.P, c.n), c.n)]
             t == Transcript(ci)
         IN VerdictF(Opts(ci), c.dmax, HonestCom(ci, t), HonestPrf(ci, t), QueryEvals(ci), c.pos, TRUE, FixedDomain) = "accept"
    [] c.k = "deg" ->
         LET w == W(c.P, c.n)
             ev == EvalsOver(c.P, c.d, c.poly, Offset(c.P), w, c.n)
             nxt == FoldEvals(c.P, c.d, ev, Coset(c.P, Offset(c.P), w, c.n), c.N, c.alpha)
             m == c.n \div c.N
             bound == m \div c.B
         IN \A k \in bound..(m - 1) : InterpCoef(c.P, c.d, nxt, Offset(c.P), FPow(c.P, w, c.N), k) = EZero(c.d)

Init == phase = 0 /\ (lem \in DrpCases \/ lem \in RemCases \/ lem \in DegCases \/ lem \in CompCases)
Next == phase = 0 /\ phase' = 1 /\ UNCHANGED lem
Spec == Init /\ [][Next]_vars
\* evaluated on the successor states only, so that TLC's workers share the work
LemmasHold == phase = 1 => Holds(lem)
=============================================================================
