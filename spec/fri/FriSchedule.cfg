SPECIFICATION Spec
INVARIANT Progress
POSTCONDITION Accepted
CHECK_DEADLOCK FALSE
