\* C08 quick tier: tiny exhaustive families (ex1 with 11 of the 97 values of c1), every schedule with
\* domain 8..256 (2 variants each), domains 512 and 1024 with blowup 16, apply_drp / position cases.
SPECIFICATION Spec
CONSTANTS NReal = 120  RealMaxLogN = 12  MinLogN = 3  MaxLogN = 8  Variants = 2  NDrp = 150  NPos = 300
  Ex1B <- Ex1BQuick  Ex3A = {1, 3}  Ex3P = {2, 3, 4}  BigLogNs = {9, 10}  BigBlowups = {16}
  Blowups <- BlowupsAll  Foldings <- FoldingsAll  RemDegs <- RemDegsAll
ACTION_CONSTRAINT Emit
CHECK_DEADLOCK FALSE
