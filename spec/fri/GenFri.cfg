\* C08 quick tier: exhaustive tiny families + every supported configuration with domain 8..256
\* (2 variants each) + apply_drp / position-mapping cases.
SPECIFICATION Spec
CONSTANTS DoEx1 = TRUE  DoEx3 = TRUE  MinLogN = 3  MaxLogN = 8  Variants = 2  NDrp = 150  NPos = 300
  Blowups <- BlowupsAll  Foldings <- FoldingsAll  RemDegs <- RemDegsAll
ACTION_CONSTRAINT Emit
CHECK_DEADLOCK FALSE
