------------------------------ MODULE MCMerkle ------------------------------
(* Case sets for MerkleCases.  Exhaustive sets are computed here; sampled index lists for 16-leaf
   trees (quick tier) and for the big trees (32..4096 leaves) are chosen by the driver with the run's
   seed and read from the ndjson file named by the environment variable CASES (inputs only: every
   expected result is still computed by the specification).

   A chunk is Mk("chunk", n, <<mode, a>>, <<>>, FALSE):
     mode 1: all ascending index lists of the n-leaf tree whose smallest index is a
     mode 2: all duplicate-free lists of at most MaxOrdered indexes, in every order, that start with a
     mode 3: the tree itself (root, all single openings)
     mode 4: rows r of the CASES file with r % FileChunks = a
     mode 5 (n = depth): arbitrary malformed proofs of that depth: every index list of at most ShapeMaxIdx
             entries over ShapeIdxAlphabet (duplicates and out-of-range values included), every
             sequence of at most ShapeMaxVecs node-vector lengths over ShapeLenAlphabet, 0..3 leaves *)
EXTENDS MerkleCases, IOUtils

CONSTANTS Sizes,        \* tree sizes enumerated exhaustively
          MaxOrdered,   \* all orders for lists of at most this many indexes
          FileChunks,   \* 0: no CASES file
          ShapeDepths, ShapeIdxAlphabet, ShapeMaxIdx, ShapeLenAlphabet, ShapeMaxVecs   \* ShapeDepths = {}: none

TreeCase(n) == Mk("tree", n, <<>>, [i \in 1..n |-> i - 1], FALSE)

\* depths 0..255 are all tried for two index lists per tree, a handful of depths for the others
AllDepthsFor(n, s) == s = <<n - 1>> \/ s = <<0, n - 1>>
Batch(n, s) == Mk("batch", n, s, <<>>, AllDepthsFor(n, s))

Injective(s) == \A a, b \in 1..Len(s) : a # b => s[a] # s[b]

ChunksImpl ==
  UNION {{Mk("chunk", n, <<3, 0>>, <<>>, FALSE)}
         \cup {Mk("chunk", n, <<1, a>>, <<>>, FALSE) : a \in 0..(n - 1)}
         \cup {Mk("chunk", n, <<2, a>>, <<>>, FALSE) : a \in 0..(n - 1)} : n \in Sizes}
  \cup {Mk("chunk", 0, <<4, a>>, <<>>, FALSE) : a \in 0..(FileChunks - 1)}
  \cup {Mk("chunk", d, <<5, 0>>, <<>>, FALSE) : d \in ShapeDepths}

CasesOfImpl(ch) ==
  LET n == ch.n  mode == ch.idx[1]  a == ch.idx[2] IN
  CASE mode = 1 -> {Batch(n, <<a>> \o SortedSeq(S)) : S \in SUBSET ((a + 1)..(n - 1))}
    [] mode = 2 -> {Batch(n, <<a>> \o s) :
                      s \in {t \in UNION {[1..m -> (0..(n - 1)) \ {a}] : m \in 0..(MaxOrdered - 1)} : Injective(t)}}
    [] mode = 3 -> {TreeCase(n)}
    [] mode = 4 -> LET rows == ndJsonDeserialize(IOEnv.CASES) IN
                   {Mk(rows[r].kind, rows[r].n, rows[r].idx, rows[r].sidx, rows[r].alld) :
                      r \in {x \in 1..Len(rows) : x % FileChunks = a}}
    [] mode = 5 -> {Mk("shape", n, ix, lens \o <<nl>>, FALSE) :
                      ix \in UNION {[1..m -> ShapeIdxAlphabet] : m \in 0..ShapeMaxIdx},
                      lens \in UNION {[1..m -> ShapeLenAlphabet] : m \in 0..ShapeMaxVecs},
                      nl \in 0..3}
=============================================================================
