SPECIFICATION Spec
CONSTANTS N = 8  S = 1
INVARIANT NoUninitRead NoDoubleWrite Correct
CHECK_DEADLOCK FALSE
