\* Design-level model of the code AS FOUND under overflow checks (cargo test / dev profile): 2^depth and
\* 1 << depth overflow for depth >= 64.  TLC is EXPECTED to report `Design` violated here (a modelled
\* panic on a malformed proof); C19 records the counterexample as design-level evidence of finding
\* F-C19-1.  MCMerkle_c19_guard.cfg is the same model with the proposed depth guard and must pass.
SPECIFICATION Spec
CONSTANTS FullUpTo = 16  EmitC18 = FALSE  EmitC19 = TRUE  OverflowChecks = TRUE  DepthGuard = FALSE
  Sizes = {2, 4}  MaxOrdered = 2  FileChunks = 0
  ShapeDepths = {1, 63, 64}  ShapeIdxAlphabet = {0, 1, 3}  ShapeMaxIdx = 2  ShapeLenAlphabet = {0, 1}  ShapeMaxVecs = 2
  Chunks <- ChunksImpl  CasesOf <- CasesOfImpl
INVARIANT Design
CHECK_DEADLOCK FALSE
