----------------------------- MODULE MerkleCases -----------------------------
(* C18 / C19 — case generator and design-level checks.

   Every CASE is one state at depth 2 of a three-level state graph  start -> chunk -> case  (the
   properties are denotational: there is no behaviour, the invariants are evaluated once per case;
   the chunk level only exists so that TLC's workers share the cases):
     [kind |-> "tree",  n, sidx]   a tree of n leaves; sidx = leaves whose single openings (and,
                                    for C19, single-opening mutations) are emitted
     [kind |-> "batch", n, idx, alld]  a batch opening of the (ordered, duplicate-free) index list idx
   Invariant `Design` is the design-level result: for the case at hand the transcribed algorithms
   of MerkleBatch agree with the definitions of Merkle (root reconstruction, equality of the two
   construction routes, expansion into exactly the single openings, format = BatchNodes), compact
   forms expand to the full-term results, and every derived mutation gets from the transcription an
   outcome compatible with the verdict the PROPERTY assigns to it (and no modelled panic).
   Invariant `Emit` (always TRUE) prints the case with its expected results as terms; those come
   from the definitions (Root / OpeningT / leaf terms) and from the property's verdict classes,
   never from the transcription — except the fields `nodes`/`depth` of the honest proof, which are
   the starting point of the C19 mutations and are compared on the C18 side as information only. *)
EXTENDS MerkleBatch, Json, Bytes

CONSTANTS Chunks,      \* set of chunk records (see MCMerkle)
          CasesOf(_),  \* the case records of a chunk
          FullUpTo,    \* trees up to this size are also evaluated with full terms
          EmitC18,     \* print expected openings etc.
          EmitC19      \* print mutations with verdicts

VARIABLE case
vars == <<case>>

Mk(kind, n, idx, sidx, alld) == [kind |-> kind, n |-> n, idx |-> idx, sidx |-> sidx, alld |-> alld]
Init == case = Mk("start", 0, <<>>, <<>>, FALSE)
Next == \/ case.kind = "start" /\ case' \in Chunks
        \/ case.kind = "chunk" /\ case' \in CasesOf(case)
Spec == Init /\ [][Next]_vars

FullTrees == [n \in {m \in {2, 4, 8, 16, 32, 64} : m <= FullUpTo} |-> TreeF(LeafSeq(n))]

(***************************************************************************)
(* sequence helpers                                                        *)
(***************************************************************************)
SetAt(s, k, v)   == [s EXCEPT ![k] = v]
DelAt(s, k)   == SubSeq(s, 1, k - 1) \o SubSeq(s, k + 1, Len(s))
SwapAt(s, a, b)  == [s EXCEPT ![a] = s[b], ![b] = s[a]]
Coords(nodes)    == Concat([p \in 1..Len(nodes) |-> [q \in 1..Len(nodes[p]) |-> <<p, q>>]])
Total(nodes)     == Len(Coords(nodes))
SetNode(nodes, co, v)  == [nodes EXCEPT ![co[1]] = SetAt(@, co[2], v)]
DropNode(nodes, co)    == [nodes EXCEPT ![co[1]] = DelAt(@, co[2])]

(***************************************************************************)
(* expectations: what the PROPERTY says about each call                    *)
(*  gr (get_root):     "root" Ok(root) | "notroot" Err or Ok(other) | "err" | "any"                  *)
(*  vb (verify_batch): "ok" | "err" | "any"          io (into_openings): "ok" | "err" | "any"        *)
(*  every class additionally means: no panic                               *)
(***************************************************************************)
Exp(gr, vb, io) == [gr |-> gr, vb |-> vb, io |-> io]
Reject   == Exp("notroot", "err", "any")     \* wrong data: verification must fail
AllErr   == Exp("err", "err", "err")         \* malformed: every entry point must answer Err
NoPanic  == Exp("any", "any", "any")         \* tolerated excess: only panic freedom is required
Accept   == Exp("root", "ok", "ok")

BigIdx == << <<"le", <<0, 0, 0, 128>>>>,                          \* 2^31
             <<"le", <<0, 0, 0, 0, 1>>>>,                          \* 2^32
             <<"le", <<0, 0, 0, 0, 0, 0, 0, 128>>>>,               \* 2^63
             <<"le", <<255, 255, 255, 255, 255, 255, 255, 255>>>> >>   \* usize::MAX

DepthSeq(D, all) ==      \* D <= 12
  IF all THEN [r \in 1..255 |-> IF r - 1 < D THEN r - 1 ELSE r]
  ELSE [r \in 1..(D + 2) |-> IF r - 1 < D THEN r - 1 ELSE r] \o <<31, 32, 33, 62, 63, 64, 65, 127, 128, 254, 255>>

(* Mutations of an honest batch opening B = [n, idx, lv, nodes, depth]; T compact tree accessor.
   A mutation carries only the components it changes. *)
\* positions that get mutated: all of 1..N when N is small, a spread of five otherwise
Sel(N) == IF N <= 10 THEN [r \in 1..N |-> r] ELSE <<1, 2, N \div 2, N - 1, N>>

BatchMuts(T, B, alld) ==
  LET n == B.n  idx == B.idx  lv == B.lv  nodes == B.nodes  D == B.depth
      L == Len(idx)  S == Rng(idx)  co == Coords(nodes)  NC == Len(co)  NV == Len(nodes)
      free == (0..(n - 1)) \ S
      Ks == IF L = 1 THEN <<1>> ELSE <<1, L>>
      Ps == IF NV = 1 THEN <<1>> ELSE <<1, NV>>
      M(k, e) == [k |-> k] @@ e
      \* --- wrong data -------------------------------------------------------------------------
      sL == Sel(L)  sC == Sel(NC)  sV == Sel(NV)
      leafM == Concat([x \in 1..Len(sL) |-> LET k == sL[x] IN
                 << M("b_leaf", [lv |-> SetAt(lv, k, Foreign(0))]) @@ Reject,
                    M("b_leaf", [lv |-> SetAt(lv, k, Leaf(Xor1(idx[k])))]) @@ Reject >>])
               \o (IF L >= 2 THEN << M("b_leaf", [lv |-> SetAt(lv, 1, lv[2])]) @@ Reject >> ELSE <<>>)
      nodeM == Concat([x \in 1..Len(sC) |-> LET r == sC[x] IN
                 << M("b_node", [nodes |-> SetNode(nodes, co[r], Foreign(1))]) @@ Reject,
                    M("b_node", [nodes |-> SetNode(nodes, co[r], T[1])]) @@ Reject >>])
               \o (IF NC >= 1 THEN << M("b_node", [nodes |-> SetNode(nodes, co[1], lv[1])]) @@ Reject >> ELSE <<>>)
      sW == Sel(IF NC = 0 THEN 0 ELSE NC - 1)
      nswapM == [x \in 1..Len(sW) |-> LET r == sW[x] IN
                 M("b_nodeswap", [nodes |-> SetNode(SetNode(nodes, co[r], nodes[co[r + 1][1]][co[r + 1][2]]),
                                                    co[r + 1], nodes[co[r][1]][co[r][2]])]) @@ Reject]
      idxM == IF free = {} THEN <<>>
              ELSE LET lo == CHOOSE x \in free : \A y \in free : x <= y
                       hi == CHOOSE x \in free : \A y \in free : x >= y IN
                   Concat([x \in 1..Len(sL) |-> LET k == sL[x] IN
                     << M("b_idx", [idx |-> SetAt(idx, k, lo)]) @@ Reject >>
                     \o (IF hi # lo THEN << M("b_idx", [idx |-> SetAt(idx, k, hi)]) @@ Reject >> ELSE <<>>)])
      sP == Sel(IF L < 2 THEN 0 ELSE L - 1)
      pairs == IF L < 2 THEN <<>> ELSE [x \in 1..Len(sP) |-> <<sP[x], sP[x] + 1>>] \o (IF L >= 3 THEN <<<<1, L>>>> ELSE <<>>)
      iswapM == Concat([r \in 1..Len(pairs) |->
                 << M("b_idxswap", [idx |-> SwapAt(idx, pairs[r][1], pairs[r][2])]) @@ Reject,
                    M("b_swapboth", [idx |-> SwapAt(idx, pairs[r][1], pairs[r][2]),
                                     lv |-> SwapAt(lv, pairs[r][1], pairs[r][2])]) @@ Accept >>])
      \* --- invalid index lists ----------------------------------------------------------------
      dupM == (IF L >= 2 THEN << M("b_dup", [idx |-> SetAt(idx, 1, idx[2])]) @@ AllErr,
                                 M("b_dup", [idx |-> SetAt(idx, L, idx[1])]) @@ AllErr >> ELSE <<>>)
              \o << M("b_dup", [idx |-> Append(idx, idx[1]), lv |-> Append(lv, lv[1])]) @@ AllErr >>
      oobM == Concat([r \in 1..Len(Ks) |-> << M("b_oob", [idx |-> SetAt(idx, Ks[r], n)]) @@ AllErr >>])
              \o << M("b_oob", [idx |-> SetAt(idx, 1, 2 * n - 1)]) @@ AllErr,
                    M("b_oob", [idx |-> SetAt(idx, 1, n + 1)]) @@ AllErr,
                    M("b_oob", [idx |-> Append(idx, n), lv |-> Append(lv, Foreign(2))]) @@ AllErr >>
              \o [r \in 1..Len(BigIdx) |-> M("b_oob", [idx |-> SetAt(idx, L, BigIdx[r]), big |-> TRUE]) @@ AllErr]
      emptyM == << M("b_empty", [idx |-> <<>>, lv |-> <<>>]) @@ AllErr,
                   M("b_empty", [idx |-> <<>>]) @@ AllErr,
                   M("sh_empty", [idx |-> <<>>, lv |-> <<>>, nodes |-> <<>>, depth |-> 0]) @@ AllErr >>
      \* --- malformed shapes -------------------------------------------------------------------
      dropnM == [x \in 1..Len(sC) |-> M("sh_dropnode", [nodes |-> DropNode(nodes, co[sC[x]])]) @@ AllErr]
      dropvM == [x \in 1..Len(sV) |-> M("sh_dropvec", [nodes |-> DelAt(nodes, sV[x])])
                                   @@ (IF Len(nodes[sV[x]]) > 0 THEN AllErr ELSE NoPanic)]
                \o << M("sh_dropvec", [nodes |-> <<>>]) @@ (IF NC > 0 THEN AllErr ELSE NoPanic) >>
      addnM == Concat([r \in 1..Len(Ps) |->
                 << M("sh_addnode", [nodes |-> [nodes EXCEPT ![Ps[r]] = Append(@, Foreign(3))]]) @@ NoPanic,
                    M("sh_insfront", [nodes |-> [nodes EXCEPT ![Ps[r]] = <<Foreign(3)>> \o @]])
                      @@ (IF Len(nodes[Ps[r]]) > 0 THEN Reject ELSE NoPanic) >>])
      addvM == << M("sh_addvec", [nodes |-> Append(nodes, <<>>)]) @@ NoPanic,
                  M("sh_addvec", [nodes |-> Append(nodes, <<Foreign(3)>>)]) @@ NoPanic,
                  M("sh_addvec", [nodes |-> <<<<>>>> \o nodes]) @@ NoPanic >>
      leafcM == << M("sh_dropleaf", [lv |-> SubSeq(lv, 1, L - 1)]) @@ AllErr,
                   M("sh_dropleaf", [lv |-> SubSeq(lv, 2, L)]) @@ AllErr,
                   M("sh_addleaf", [lv |-> Append(lv, Foreign(2))]) @@ NoPanic >>
      ds == DepthSeq(D, alld)
      depthM == [r \in 1..Len(ds) |->
                  M("sh_depth", [depth |-> ds[r]])
                  @@ (IF ds[r] > D THEN AllErr
                      ELSE IF \E i \in S : ~InRange(i, ds[r]) THEN AllErr ELSE Reject)]
  IN leafM \o nodeM \o nswapM \o idxM \o iswapM \o dupM \o oobM \o emptyM
     \o dropnM \o dropvM \o addnM \o addvM \o leafcM \o depthM

Mutated(B, m) ==
  [idx   |-> IF "idx" \in DOMAIN m THEN m.idx ELSE B.idx,
   lv    |-> IF "lv" \in DOMAIN m THEN m.lv ELSE B.lv,
   nodes |-> IF "nodes" \in DOMAIN m THEN m.nodes ELSE B.nodes,
   depth |-> IF "depth" \in DOMAIN m THEN m.depth ELSE B.depth]

\* design level: the transcription's outcome is compatible with the property's verdict class
MutConsistent(c, root, B, m) ==
  "big" \in DOMAIN m \/
  LET X == Mutated(B, m)
      P == Proof(X.nodes, X.depth)
      gr == GetRoot(c, P, X.idx, X.lv)
      io == IntoOpenings(c, P, X.lv, X.idx)
      isroot == gr.t = "ok" /\ gr.v = root
      good == /\ gr.t # "panic" /\ io.t # "panic"
              /\ CASE m.gr = "root" -> isroot
                   [] m.gr = "notroot" -> ~isroot
                   [] m.gr = "err" -> gr.t = "err"
                   [] OTHER -> TRUE
              /\ (m.vb = "ok" => isroot)
              /\ (m.vb = "err" => ~isroot)
              /\ (m.io = "ok" => io.t = "ok")
              /\ (m.io = "err" => io.t = "err")
  IN IF good THEN TRUE ELSE Print(<<"INCONSISTENT", m, gr, io.t>>, FALSE)

(***************************************************************************)
(* arbitrary malformed proofs: case [kind "shape", n = depth, idx, sidx = node-vector lengths    *)
(* followed by the number of leaves].  Nodes and leaves are digests foreign to every tree, so   *)
(* the root of the 2-leaf tree can never be reconstructed; invalid index lists and too few      *)
(* leaves must give Err everywhere, the rest only has to be panic free.                          *)
(***************************************************************************)
ShapeInput(depth, idx, lens, nl) ==
  [n |-> 2, idx |-> idx, lv |-> [k \in 1..nl |-> Foreign(200 + k)],
   nodes |-> [p \in 1..Len(lens) |-> [q \in 1..lens[p] |-> Foreign(100 + 10 * p + q)]], depth |-> depth]
ShapeExp(X) ==
  IF \/ X.idx = <<>> \/ Cardinality(Rng(X.idx)) # Len(X.idx) \/ X.depth >= 64
     \/ \E k \in 1..Len(X.idx) : ~InRange(X.idx[k], X.depth) \/ Len(X.lv) < Len(X.idx)
    THEN AllErr ELSE Reject
ShapeOf(cs) == ShapeInput(cs.n, cs.idx, SubSeq(cs.sidx, 1, Len(cs.sidx) - 1), cs.sidx[Len(cs.sidx)])

(***************************************************************************)
(* single openings                                                         *)
(***************************************************************************)
SingleMuts(c, T, n, i, alli) ==
  LET D == Log2(n)  leaf == T[n + i]  pr == OpeningT(T, n, i)  root == T[1]
      V(i2, l2, p2) == IF VerifyOpening(c, root, i2, l2, p2) THEN "ok" ELSE "err"
      js == IF alli THEN SortedSeq((0..(n - 1)) \ {i})
            ELSE SortedSeq({Xor1(i), (i + n \div 2) % n, 0, n - 1, (i + 1) % n, (i + n - 1) % n} \ {i})
      lbys == <<Foreign(0), Leaf(Xor1(i)), Leaf((i + 1) % n), root>>
      nbys(h) == <<Foreign(1), leaf, pr[(h % D) + 1], root>>
  IN [r \in 1..Len(lbys) |-> [k |-> "s_leaf", leaf |-> lbys[r], exp |-> V(i, lbys[r], pr)]]
     \o Concat([h \in 1..D |-> [r \in 1..4 |->
            [k |-> "s_node", proof |-> SetAt(pr, h, nbys(h)[r]), exp |-> V(i, leaf, SetAt(pr, h, nbys(h)[r]))]]])
     \o [r \in 1..Len(js) |-> [k |-> "s_idx", i |-> js[r], exp |-> V(js[r], leaf, pr)]]

\* the property: a single opening verifies, and any substituted leaf / node / in-range index is rejected
SinglePropertyHolds(sm, base) ==
  \A r \in 1..Len(sm) :
    LET m == sm[r]
        changed == \/ ("leaf" \in DOMAIN m /\ m.leaf # base.leaf)
                   \/ ("proof" \in DOMAIN m /\ m.proof # base.proof)
                   \/ ("i" \in DOMAIN m /\ m.i # base.i)
    IN (m.exp = "err") <=> changed

(***************************************************************************)
(* Design-level invariant                                                  *)
(***************************************************************************)
BatchBase(T, n, idx) ==
  [n |-> n, idx |-> idx, lv |-> [k \in 1..Len(idx) |-> T[n + idx[k]]],
   nodes |-> BatchNodes(T, n, idx), depth |-> Log2(n)]

DesignBatch(c, T, n, idx) ==
  LET D == Log2(n)
      pb == ProveBatch(T, n, idx)
      ops == [k \in 1..Len(idx) |-> <<T[n + idx[k]], OpeningT(T, n, idx[k])>>]
      B == BatchBase(T, n, idx)
      co == Coords(B.nodes)
  IN /\ pb.t = "ok"
     /\ pb.v.leaves = B.lv
     /\ pb.v.proof = Proof(B.nodes, D)                       \* transcription = format description
     /\ LET g == GetRoot(c, pb.v.proof, idx, pb.v.leaves) IN g.t = "ok" /\ g.v = T[1]   \* reconstructs the root
     /\ FromSingleProofs(ops, idx) = pb.v.proof              \* the two construction routes coincide
     /\ LET o == IntoOpenings(c, pb.v.proof, pb.v.leaves, idx) IN o.t = "ok" /\ o.v = ops   \* expands into exactly the single openings
     \* the nodes of an honest proof are pairwise distinct and none is the root / an opened leaf / foreign
     /\ \A a, b \in 1..Len(co) : a # b => B.nodes[co[a][1]][co[a][2]] # B.nodes[co[b][1]][co[b][2]]
     /\ \A a \in 1..Len(co) : LET x == B.nodes[co[a][1]][co[a][2]] IN
                              x # T[1] /\ x \notin Rng(B.lv) /\ x[1] # "x"

DesignMuts(c, T, n, idx, alld) ==
  LET B == BatchBase(T, n, idx)  ms == BatchMuts(T, B, alld) IN
  \A r \in 1..Len(ms) : MutConsistent(c, T[1], B, ms[r])

DesignTree(n, sidx) ==
  LET TC == TreeC(n) IN
  /\ \A i \in sidx : VerifyOpening(n, TC[1], i, TC[n + i], OpeningT(TC, n, i))
  /\ \A i \in sidx : SinglePropertyHolds(SingleMuts(n, TC, n, i, n <= 16),
                                         [leaf |-> TC[n + i], proof |-> OpeningT(TC, n, i), i |-> i])
  /\ n <= FullUpTo =>
       LET ls == LeafSeq(n)  TF == FullTrees[n] IN
       /\ TF[1] = Root(ls) /\ RootByLevels(ls) = Root(ls)
       /\ \A k \in 1..(2 * n - 1) : Expand(n, TC[k]) = TF[k]               \* the printed table means the definition
       /\ \A i \in sidx : /\ OpeningT(TF, n, i) = Opening(ls, i)
                          /\ ExpandSeq(n, OpeningT(TC, n, i)) = Opening(ls, i)
                          /\ VerifyOpening(0, Root(ls), i, ls[i + 1], Opening(ls, i))
                          \* verdicts computed on compact forms = verdicts computed on full terms
                          /\ LET smc == SingleMuts(n, TC, n, i, n <= 16)
                                 smf == SingleMuts(0, TF, n, i, n <= 16)
                             IN \A r \in 1..Len(smc) : smc[r].exp = smf[r].exp

Design ==
  IF case.kind \in {"start", "chunk"} THEN TRUE
  ELSE IF case.kind = "shape" THEN LET X == ShapeOf(case) IN MutConsistent(2, Ref(1), X, [k |-> "shape"] @@ ShapeExp(X))
  ELSE IF case.kind = "tree" THEN DesignTree(case.n, Rng(case.sidx))
  ELSE /\ DesignBatch(case.n, TreeC(case.n), case.n, case.idx)
       /\ (EmitC19 => DesignMuts(case.n, TreeC(case.n), case.n, case.idx, case.alld))
       /\ case.n <= FullUpTo =>
            /\ DesignBatch(0, FullTrees[case.n], case.n, case.idx)
            /\ ExpandSeq2(case.n, BatchNodes(TreeC(case.n), case.n, case.idx))
                 = BatchNodes(FullTrees[case.n], case.n, case.idx)

(***************************************************************************)
(* Emission                                                                *)
(***************************************************************************)
TreeRecord(n, sidx) ==
  LET T == TreeC(n) IN
  [kind |-> "tree", n |-> n, table |-> Table(n), root |-> T[1], depth |-> Log2(n),
   singles |-> IF EmitC18 THEN [r \in 1..Len(sidx) |->
                          [i |-> sidx[r], leaf |-> T[n + sidx[r]], proof |-> OpeningT(T, n, sidx[r])]]
               ELSE <<>>,
   smuts |-> IF EmitC19 THEN [r \in 1..Len(sidx) |->
                          [i |-> sidx[r], leaf |-> T[n + sidx[r]], proof |-> OpeningT(T, n, sidx[r]),
                           muts |-> SingleMuts(n, T, n, sidx[r], n <= 16)]]
             ELSE <<>>]

BatchRecord(n, idx, alld) ==
  LET T == TreeC(n)  B == BatchBase(T, n, idx) IN
  [kind |-> "batch", n |-> n, idx |-> idx, root |-> T[1], leaves |-> B.lv, nodes |-> B.nodes, depth |-> B.depth,
   openings |-> IF EmitC18 THEN [k \in 1..Len(idx) |-> OpeningT(T, n, idx[k])] ELSE <<>>,
   muts |-> IF EmitC19 THEN BatchMuts(T, B, alld) ELSE <<>>]

ShapeRecord(X) ==
  [kind |-> "shape", n |-> 2, idx |-> X.idx, root |-> Ref(1), leaves |-> X.lv, nodes |-> X.nodes, depth |-> X.depth,
   muts |-> << [k |-> "shape"] @@ ShapeExp(X) >>]

Emit == case.kind \in {"start", "chunk"}
        \/ PrintT(<<"REPLAY", ToJson(IF case.kind = "tree" THEN TreeRecord(case.n, case.sidx)
                                      ELSE IF case.kind = "shape" THEN ShapeRecord(ShapeOf(case))
                                      ELSE BatchRecord(case.n, case.idx, case.alld))>>)
=============================================================================
