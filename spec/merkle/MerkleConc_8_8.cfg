SPECIFICATION Spec
CONSTANTS N = 8  S = 8
INVARIANT NoUninitRead NoDoubleWrite Correct
CHECK_DEADLOCK FALSE
