\* C18 quick: exhaustive for trees of 2, 4, 8 leaves (every ascending index list, every order of at
\* most 4 indexes) + the driver's sampled cases (16-leaf trees, long unsorted lists, trees 32..4096).
\* Design = design-level check of the transcribed algorithms; Emit prints the cases for the replay.
SPECIFICATION Spec
CONSTANTS FullUpTo = 64  EmitC18 = TRUE  EmitC19 = FALSE  OverflowChecks = FALSE  DepthGuard = FALSE
  Sizes = {2, 4, 8}  MaxOrdered = 4  FileChunks = 4
  ShapeDepths = {}  ShapeIdxAlphabet = {}  ShapeMaxIdx = 0  ShapeLenAlphabet = {}  ShapeMaxVecs = 0
  Chunks <- ChunksImpl  CasesOf <- CasesOfImpl
INVARIANT Design Emit
CHECK_DEADLOCK FALSE
