\* smoke configuration: trees of 2 and 4 leaves, everything emitted
SPECIFICATION Spec
CONSTANTS FullUpTo = 16  EmitC18 = TRUE  EmitC19 = TRUE  OverflowChecks = FALSE  DepthGuard = FALSE
  Sizes = {2, 4}  MaxOrdered = 4  FileChunks = 0
  ShapeDepths = {1, 64}  ShapeIdxAlphabet = {0, 1, 3}  ShapeMaxIdx = 2  ShapeLenAlphabet = {0, 1}  ShapeMaxVecs = 2
  Chunks <- ChunksImpl  CasesOf <- CasesOfImpl
INVARIANT Design Emit
CHECK_DEADLOCK FALSE
