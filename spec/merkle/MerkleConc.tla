----------------------------- MODULE MerkleConc -----------------------------
(* C06 / C18, design level: the task schedule of crypto/src/merkle/concurrent.rs::build_merkle_nodes.
   `n` internal nodes (2n leaves), node k has children 2k and 2k+1, nodes n..2n-1 are computed first from
   pairs of leaves (a parallel map, no dependencies).  Then S = NumSubtrees tasks run concurrently; task i
   owns, on every level above the leaf-parents, the contiguous range
        [start, start + batch)   with   batch = (n/S)/2, start = n/2 + batch*i   halved per level
   and writes nodes[k] = merge(nodes[2k], nodes[2k+1]) for k in that range (descending), as long as
   start >= S; finally the main thread computes nodes S-1 .. 1.  One TLA+ step = one node write by one
   task, so TLC explores every interleaving.  Checked:
     NoUninitRead   a task only reads children that have already been written,
     NoDoubleWrite  no node is written twice,
     Correct        at the end every node holds the recursive pairwise hash of its leaves. *)
EXTENDS Integers, Sequences, FiniteSets, TLC

CONSTANTS N,            \* number of internal nodes (power of two), leaves = 2N
          S             \* number of subtrees / tasks (power of two, S <= N)

VARIABLES nodes,        \* node index 1..2N-1 -> term or Uninit (not yet written)
          task,         \* task i -> [start, batch, k, done] (k = next node to write, descending)
          main          \* next node the main thread writes (S-1 down to 1), WAIT before the join, DONE at the end
vars == <<nodes, task, main>>

Uninit == <<"uninit">>
Leaf(j) == <<"leaf", j>>                       \* leaves 0..2N-1
Merge(a, b) == <<"m", a, b>>
RECURSIVE Tree(_)
\* term of node k in the heap layout: leaves hang under nodes N..2N-1
Tree(k) == IF k >= N THEN Merge(Leaf(2 * (k - N)), Leaf(2 * (k - N) + 1)) ELSE Merge(Tree(2 * k), Tree(2 * k + 1))

Tasks == 0..(S - 1)
Finished == [start |-> 0, batch |-> 0, k |-> 0, done |-> TRUE]
WAIT == 0 - 1
DONE == 0
FirstRange(i) == LET b == (N \div S) \div 2 IN [start |-> N \div 2 + b * i, batch |-> b]

\* a task's state after its range on one level is finished: move one level up or stop
NextLevel(st) == LET s2 == st.start \div 2  b2 == st.batch \div 2 IN
                 IF s2 >= S /\ b2 >= 1 THEN [start |-> s2, batch |-> b2, k |-> s2 + b2 - 1, done |-> FALSE] ELSE Finished
StartOf(i) == LET r == FirstRange(i) IN
              IF r.start >= S /\ r.batch >= 1 THEN [start |-> r.start, batch |-> r.batch, k |-> r.start + r.batch - 1, done |-> FALSE] ELSE Finished

Init == /\ nodes = [k \in 1..(2 * N - 1) |-> IF k >= N THEN Tree(k) ELSE Uninit]   \* leaf-parents done
        /\ task = [i \in Tasks |-> StartOf(i)]
        /\ main = WAIT

Write(i) == /\ ~task[i].done
            /\ LET st == task[i]  k == st.k IN
               /\ nodes' = [nodes EXCEPT ![k] = Merge(nodes[2 * k], nodes[2 * k + 1])]
               /\ task' = [task EXCEPT ![i] = IF k = st.start THEN NextLevel(st) ELSE [st EXCEPT !.k = k - 1]]
            /\ UNCHANGED main
Join == /\ main = WAIT
        /\ \A i \in Tasks : task[i].done
        /\ main' = IF S > 1 THEN S - 1 ELSE DONE
        /\ UNCHANGED <<nodes, task>>
MainWrite == /\ main \notin {WAIT, DONE}
             /\ nodes' = [nodes EXCEPT ![main] = Merge(nodes[2 * main], nodes[2 * main + 1])]
             /\ main' = IF main = 1 THEN DONE ELSE main - 1
             /\ UNCHANGED task
Next == (\E i \in Tasks : Write(i)) \/ Join \/ MainWrite
Spec == Init /\ [][Next]_vars

\* the children a pending write is about to read are initialised
NoUninitRead ==
  /\ \A i \in Tasks : ~task[i].done => nodes[2 * task[i].k] # Uninit /\ nodes[2 * task[i].k + 1] # Uninit
  /\ main \notin {WAIT, DONE} => nodes[2 * main] # Uninit /\ nodes[2 * main + 1] # Uninit
\* a pending write targets a node nobody wrote yet, and two tasks never target the same node
NoDoubleWrite ==
  /\ \A i \in Tasks : ~task[i].done => nodes[task[i].k] = Uninit
  /\ \A i, j \in Tasks : (i # j /\ ~task[i].done /\ ~task[j].done) => task[i].k # task[j].k
Correct == main = DONE => \A k \in 1..(2 * N - 1) : nodes[k] = Tree(k)
=============================================================================
