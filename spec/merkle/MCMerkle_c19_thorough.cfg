\* C19 thorough: mutations of every honest opening of the 2-, 4- and 8-leaf trees + the driver's sampled cases.
SPECIFICATION Spec
CONSTANTS FullUpTo = 16  EmitC18 = FALSE  EmitC19 = TRUE  OverflowChecks = FALSE  DepthGuard = FALSE
  Sizes = {2, 4, 8}  MaxOrdered = 4  FileChunks = 4
  ShapeDepths = {0, 1, 2, 3, 63, 64, 255}  ShapeIdxAlphabet = {0, 1, 2, 5}  ShapeMaxIdx = 3  ShapeLenAlphabet = {0, 1, 2}  ShapeMaxVecs = 3
  Chunks <- ChunksImpl  CasesOf <- CasesOfImpl
INVARIANT Design Emit
CHECK_DEADLOCK FALSE
