------------------------------- MODULE Merkle -------------------------------
(* C18 / C19 — the MEANING of a Merkle tree, of a single opening and of its verification, with
   hashing as a free constructor (mechanism C, "symbolic hashing"): two digests are equal iff they
   are the same term, i.e. the hash is ideal and collision free.

     leaf i (0-based)          <<"leaf", i>>
     merge of two digests      <<"m", a, b>>
     a digest foreign to the tree  <<"x", j>>

   DEFINITION.  For a sequence ls of 2^d leaves (d >= 1) the tree is the recursive pairwise hash:
   Sub(ls, h, j) is the digest covering leaves [j*2^h, (j+1)*2^h); Root(ls) = Sub(ls, d, 0).
   The opening of leaf i is the sequence of the d siblings of its ancestors, bottom-up (what
   MerkleTree::prove returns as the second tuple element; the first element is the leaf itself and
   is NOT part of the path).  Verification recomputes the path and compares with the root.

   COMPACT FORM.  To keep what TLC prints small, digests of the canonical tree (leaves
   Leaf(0..n-1)) are also written as references <<"ref", k>> into a table printed once per tree:
   Table(n)[k] = <<"m", node 2k, node 2k+1>> in the usual heap numbering (root 1, leaves n..2n-1).
   Mg(n, a, b) is the merge as a smart constructor that folds two sibling tree nodes into the
   reference of their parent, so a digest computed by any algorithm below is in compact normal form
   and equality of compact forms coincides with equality of full terms; `Expand` turns compact
   forms back into full terms and TLC checks (MCMerkle, design level) that every compact result
   expands to the result obtained with full terms.  The conformance harness evaluates a term with
   the real Hasher::merge per "m" and a table lookup per "ref"; tree SHAPE comes from here only. *)
EXTENDS Naturals, Sequences, FiniteSets
LOCAL INSTANCE SequencesExt

Leaf(i)    == <<"leaf", i>>
Foreign(j) == <<"x", j>>
Ref(k)     == <<"ref", k>>
MergeFull(a, b) == <<"m", a, b>>

IsPow2(n) == \E d \in 0..30 : 2 ^ d = n
Log2(n)   == CHOOSE d \in 0..30 : 2 ^ d = n
FloorLog2(k) == CHOOSE l \in 0..30 : 2 ^ l <= k /\ k < 2 ^ (l + 1)
Xor1(x)   == IF x % 2 = 0 THEN x + 1 ELSE x - 1
Shr(x, h) == IF h >= 31 THEN 0 ELSE x \div (2 ^ h)

LeafSeq(n) == [i \in 1..n |-> Leaf(i - 1)]
Rng(s)   == {s[i] : i \in 1..Len(s)}

\* ascending sequence of a finite set of naturals.  SetToSeq enumerates in TLC's internal order,
\* which is ascending for integers; that is checked, with the definition as fallback.
RECURSIVE SortedSeqDef(_)
SortedSeqDef(S) == IF S = {} THEN <<>>
                   ELSE LET m == CHOOSE x \in S : \A y \in S : x <= y IN <<m>> \o SortedSeqDef(S \ {m})
SortedSeq(S) == LET s == SetToSeq(S) IN
                IF \A i \in 1..(Len(s) - 1) : s[i] < s[i + 1] THEN s ELSE SortedSeqDef(S)

(***************************************************************************)
(* Definition of the tree (full terms)                                     *)
(***************************************************************************)
RECURSIVE Sub(_, _, _)
Sub(ls, h, j) == IF h = 0 THEN ls[j + 1]
                 ELSE MergeFull(Sub(ls, h - 1, 2 * j), Sub(ls, h - 1, 2 * j + 1))
Root(ls) == Sub(ls, Log2(Len(ls)), 0)

\* the same thing level by level ("recursive pairwise hash of the leaves")
PairUp(s) == [k \in 1..(Len(s) \div 2) |-> MergeFull(s[2 * k - 1], s[2 * k])]
RECURSIVE RootByLevels(_)
RootByLevels(s) == IF Len(s) = 1 THEN s[1] ELSE RootByLevels(PairUp(s))

\* single opening of leaf i: sibling digests bottom-up, d of them
Opening(ls, i) == [h \in 1..Log2(Len(ls)) |-> Sub(ls, h - 1, Xor1(Shr(i, h - 1)))]

(***************************************************************************)
(* Compact normal form relative to the canonical tree of n leaves          *)
(***************************************************************************)
\* heap position of a term that denotes a node of the canonical tree, 0 otherwise
HeapOf(n, t) == IF t[1] = "leaf" THEN (IF t[2] < n THEN n + t[2] ELSE 0)
                ELSE IF t[1] = "ref" THEN t[2] ELSE 0
NodeC(n, k)  == IF k >= n THEN Leaf(k - n) ELSE Ref(k)

\* merge; c = 0: full terms, c = n > 0: compact normal form w.r.t. the canonical n-leaf tree
Mg(c, a, b) ==
  IF c = 0 THEN MergeFull(a, b)
  ELSE LET ha == HeapOf(c, a)  hb == HeapOf(c, b) IN
       IF ha >= 2 /\ ha % 2 = 0 /\ hb = ha + 1 THEN NodeC(c, ha \div 2) ELSE MergeFull(a, b)

\* the table printed once per tree: entry k defines <<"ref", k>>
Table(n) == [k \in 1..(2 * n - 1) |-> IF k >= n THEN Leaf(k - n)
                                       ELSE MergeFull(NodeC(n, 2 * k), NodeC(n, 2 * k + 1))]
\* tree accessor by heap position, compact and full
TreeC(n)  == [k \in 1..(2 * n - 1) |-> NodeC(n, k)]
TreeF(ls) == LET n == Len(ls)  d == Log2(n) IN
             [k \in 1..(2 * n - 1) |-> LET l == FloorLog2(k) IN Sub(ls, d - l, k - 2 ^ l)]

RECURSIVE Expand(_, _)
Expand(n, t) == IF t[1] = "ref" THEN Expand(n, Table(n)[t[2]])
                ELSE IF t[1] = "m" THEN MergeFull(Expand(n, t[2]), Expand(n, t[3]))
                ELSE t
ExpandSeq(n, s)  == [i \in 1..Len(s) |-> Expand(n, s[i])]
ExpandSeq2(n, s) == [i \in 1..Len(s) |-> ExpandSeq(n, s[i])]

\* opening read off a tree accessor T (heap positions): same definition as Opening
OpeningT(T, n, i) == [h \in 1..Log2(n) |-> T[Xor1(Shr(n + i, h - 1))]]

(***************************************************************************)
(* Verification of a single opening                                        *)
(***************************************************************************)
RECURSIVE PathFrom(_, _, _, _, _)
PathFrom(c, i, v, proof, h) ==
  IF h > Len(proof) THEN v
  ELSE PathFrom(c, i, IF Shr(i, h - 1) % 2 = 0 THEN Mg(c, v, proof[h]) ELSE Mg(c, proof[h], v),
                proof, h + 1)
PathRoot(c, i, leaf, proof) == PathFrom(c, i, leaf, proof, 1)
VerifyOpening(c, root, i, leaf, proof) == PathRoot(c, i, leaf, proof) = root
=============================================================================
