SPECIFICATION Spec
CONSTANTS N = 32  S = 4
INVARIANT NoUninitRead NoDoubleWrite Correct
CHECK_DEADLOCK FALSE
