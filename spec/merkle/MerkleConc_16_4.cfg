SPECIFICATION Spec
CONSTANTS N = 16  S = 4
INVARIANT NoUninitRead NoDoubleWrite Correct
CHECK_DEADLOCK FALSE
