----------------------------- MODULE MerkleBatch -----------------------------
(* C18 / C19 — the batch-proof ALGORITHMS of crypto/src/merkle/{mod,proofs}.rs transcribed
   (code-shaped model), next to a denotational description of the batch-proof format.

   A batch proof is [nodes |-> sequence of node vectors, depth |-> D].  The transcriptions follow the
   Rust code statement by statement, keeping its *positional* bookkeeping (node vector i belongs to
   position i of the current level's index list, proof_pointers[i] walks through it) and all of its
   `return Err(..)` exits.  One re-encoding: the Rust code keys its maps by heap position
   2^(D-h) + j; here a node is keyed by (h, j) = (height, position in the level), which is the same
   key as long as j < 2^(D-h) and lets D range over 0..255 without 2^D (TLC integers are 32 bit).
   2^D itself only matters in map_indexes / `1 << depth`: for D >= 64 the code as found overflows
   (panic under overflow checks, 0 i.e. "every index out of range" without) — modelled explicitly,
   see OverflowChecks / DepthGuard.

   These operators never gate a conformance verdict (DESIGN section 11); they are checked by TLC
   against the definitions of Merkle.tla (MerkleCases!Design), provide the node-vector shape that the
   malformed-proof generator perturbs, and predict which exit a malformed proof takes. *)
EXTENDS Merkle, TLC

CONSTANTS OverflowChecks,   \* TRUE: arithmetic overflow panics (cargo test / dev profile); FALSE: wraps
          DepthGuard        \* TRUE: model of a repaired code that answers Err for depth >= 64

Ok(v)    == [t |-> "ok", v |-> v]
Err(e)   == [t |-> "err", v |-> e]
Panic(w) == [t |-> "panic", v |-> w]

Proof(nodes, depth) == [nodes |-> nodes, depth |-> depth]

(***************************************************************************)
(* helper functions of mod.rs                                              *)
(***************************************************************************)
\* index < 2^D for a TLC-sized index
InRange(i, D) == D >= 31 \/ i < 2 ^ D

\* map_indexes: Err at the first out-of-range index, then Err on duplicates; else index -> position
MapIndexes(idx, D) ==
  IF D >= 64 /\ DepthGuard THEN Err("InvalidProof:depth")
  ELSE IF D >= 64 /\ OverflowChecks THEN Panic("2usize.pow(depth) overflows")
  ELSE IF \E k \in 1..Len(idx) : (D >= 64 \/ ~InRange(idx[k], D)) THEN Err("LeafIndexOutOfBounds")
  ELSE IF Cardinality(Rng(idx)) # Len(idx) THEN Err("DuplicateLeafIndex")
  ELSE Ok([i \in Rng(idx) |-> CHOOSE k \in 1..Len(idx) : idx[k] = i])

\* normalize_indexes: even representative of every index, ascending, without repetition
NormIdx(idx) == SortedSeq({i - (i % 2) : i \in Rng(idx)})

(***************************************************************************)
(* MerkleTree::prove_batch  (T: tree accessor by heap position, n leaves)  *)
(***************************************************************************)
RECURSIVE PBLevel(_, _, _, _, _)
PBLevel(T, cur, i, nodes, nxt) ==
  IF i > Len(cur) THEN [nodes |-> nodes, nxt |-> nxt]
  ELSE LET sib == Xor1(cur[i])
           paired == i + 1 <= Len(cur) /\ cur[i + 1] = sib
       IN IF paired THEN PBLevel(T, cur, i + 2, nodes, Append(nxt, sib \div 2))
          ELSE PBLevel(T, cur, i + 1, [nodes EXCEPT ![i] = Append(@, T[sib])], Append(nxt, sib \div 2))

RECURSIVE PBUp(_, _, _, _, _)
PBUp(T, cur, nodes, lvl, D) ==
  IF lvl >= D THEN nodes
  ELSE LET r == PBLevel(T, cur, 1, nodes, <<>>) IN PBUp(T, r.nxt, r.nodes, lvl + 1, D)

ProveBatch(T, n, idx) ==
  IF idx = <<>> THEN Err("TooFewLeafIndexes")
  ELSE LET D == Log2(n)  mi == MapIndexes(idx, D) IN
       IF mi.t # "ok" THEN mi
       ELSE LET norm == NormIdx(idx)
                S == Rng(idx)
                first == [p \in 1..Len(norm) |->
                            (IF norm[p] \in S THEN <<>> ELSE <<T[n + norm[p]]>>)
                            \o (IF norm[p] + 1 \in S THEN <<>> ELSE <<T[n + norm[p] + 1]>>)]
                next == [p \in 1..Len(norm) |-> (norm[p] + n) \div 2]
            IN Ok([leaves |-> [k \in 1..Len(idx) |-> T[n + idx[k]]],
                   proof |-> Proof(PBUp(T, next, first, 1, D), D)])

(***************************************************************************)
(* BatchMerkleProof::from_single_proofs                                    *)
(* openings: sequence of <<leaf, path>> in the order of idx                *)
(***************************************************************************)
AreSiblings(l, r) == l % 2 = 0 /\ r - 1 = l

\* first layer; pm: sequence of [key, proof] sorted by key (the BTreeMap)
RECURSIVE FSFirst(_, _, _, _, _)
FSFirst(sidx, sprf, i, nodes, pm) ==
  IF i > Len(sidx) THEN [nodes |-> nodes, pm |-> pm]
  ELSE IF i + 1 <= Len(sidx) /\ AreSiblings(sidx[i], sidx[i + 1])
         THEN FSFirst(sidx, sprf, i + 2, Append(nodes, <<>>),
                      Append(pm, [key |-> sidx[i + 1] \div 2, proof |-> sprf[i + 1]]))
         ELSE FSFirst(sidx, sprf, i + 1, Append(nodes, <<sprf[i][2][1]>>),
                      Append(pm, [key |-> sidx[i] \div 2, proof |-> sprf[i]]))

RECURSIVE FSLevel(_, _, _, _, _)
FSLevel(pm, d, i, nodes, nxt) ==      \* d: 0-based position in the path (proof.1[d])
  IF i > Len(pm) THEN [nodes |-> nodes, pm |-> nxt]
  ELSE LET e == pm[i] IN
       IF i + 1 <= Len(pm) /\ AreSiblings(e.key, pm[i + 1].key)
         THEN FSLevel(pm, d, i + 2, nodes, Append(nxt, [key |-> e.key \div 2, proof |-> e.proof]))
         ELSE FSLevel(pm, d, i + 1, [nodes EXCEPT ![i] = Append(@, e.proof[2][d + 1])],
                      Append(nxt, [key |-> e.key \div 2, proof |-> e.proof]))

RECURSIVE FSUp(_, _, _, _)
FSUp(pm, nodes, d, depth) ==
  IF d >= depth THEN nodes
  ELSE LET r == FSLevel(pm, d, 1, nodes, <<>>) IN FSUp(r.pm, r.nodes, d + 1, depth)

\* precondition (documented panics): non-empty, same number of proofs and indexes, equal path lengths
FromSingleProofs(openings, idx) ==
  LET depth == Len(openings[1][2])
      sidx == SortedSeq(Rng(idx))
      sprf == [p \in 1..Len(sidx) |-> openings[CHOOSE k \in 1..Len(idx) : idx[k] = sidx[p]]]
      f == FSFirst(sidx, sprf, 1, <<>>, <<>>)
  IN Proof(FSUp(f.pm, f.nodes, 1, depth), depth)

(***************************************************************************)
(* BatchMerkleProof::get_root and ::into_openings                          *)
(* c: merge mode (Merkle!Mg).  Both functions share the walk; into_openings*)
(* additionally fills partial_tree_map (pt), a map from (h, j) to digest.  *)
(***************************************************************************)
Put(pt, key, val) == (key :> val) @@ pt        \* BTreeMap::insert (overwrites)

\* leaf level: for every normalised index combine the two leaves of the pair
RECURSIVE WalkFirst(_, _, _, _, _, _, _)
WalkFirst(c, P, map, norm, lv, i, acc) ==     \* acc = [cur, ptr, pt]
  IF i > Len(norm) THEN Ok(acc)
  ELSE LET index == norm[i]
           has0 == index \in DOMAIN map
           has1 == (index + 1) \in DOMAIN map
           nd == P.nodes[i]
           Finish(b0, b1, p) ==
             LET parent == Mg(c, b0, b1) IN
             WalkFirst(c, P, map, norm, lv, i + 1,
                       [cur |-> Append(acc.cur, [j |-> index \div 2, val |-> parent]),
                        ptr |-> Append(acc.ptr, p),
                        pt |-> Put(Put(Put(acc.pt, <<0, index>>, b0), <<0, index + 1>>, b1),
                                   <<1, index \div 2>>, parent)])
       IN IF has0
            THEN IF Len(lv) < map[index] THEN Err("InvalidProof:leaves")
                 ELSE IF has1
                        THEN IF Len(lv) < map[index + 1] THEN Err("InvalidProof:leaves")
                             ELSE Finish(lv[map[index]], lv[map[index + 1]], 0)
                        ELSE IF nd = <<>> THEN Err("InvalidProof:nodes")
                             ELSE Finish(lv[map[index]], nd[1], 1)
            ELSE IF nd = <<>> THEN Err("InvalidProof:nodes")
                 ELSE IF has1
                        THEN IF Len(lv) < map[index + 1] THEN Err("InvalidProof:leaves")
                             ELSE Finish(nd[1], lv[map[index + 1]], 1)
                        ELSE Err("InvalidProof:unreachable")

\* one level up
RECURSIVE WalkLevel(_, _, _, _, _, _, _, _)
WalkLevel(c, P, h, cur, i, ptr, pt, nxt) ==    \* h: height of the nodes in cur
  IF i > Len(cur) THEN Ok([cur |-> nxt, ptr |-> ptr, pt |-> pt])
  ELSE LET node == cur[i]
           sj == Xor1(node.j)
           paired == i + 1 <= Len(cur) /\ cur[i + 1].j = sj
           Up(sib, i2, ptr2) ==
             LET parent == IF node.j % 2 # 0 THEN Mg(c, sib, node.val) ELSE Mg(c, node.val, sib) IN
             WalkLevel(c, P, h, cur, i2, ptr2,
                       Put(Put(pt, <<h, sj>>, sib), <<h + 1, node.j \div 2>>, parent),
                       Append(nxt, [j |-> node.j \div 2, val |-> parent]))
       IN IF paired THEN Up(cur[i + 1].val, i + 2, ptr)
          ELSE IF Len(P.nodes[i]) <= ptr[i] THEN Err("InvalidProof:nodes")
               ELSE Up(P.nodes[i][ptr[i] + 1], i + 1, [ptr EXCEPT ![i] = @ + 1])

RECURSIVE WalkUp(_, _, _, _, _)
WalkUp(c, P, st, h, D) ==         \* `for _ in 1..depth`
  IF h >= D THEN Ok(st)
  ELSE LET r == WalkLevel(c, P, h, st.cur, 1, st.ptr, st.pt, <<>>) IN
       IF r.t # "ok" THEN r ELSE WalkUp(c, P, r.v, h + 1, D)

Walk(c, P, idx, lv, pt0) ==
  LET D == P.depth  mi == MapIndexes(idx, D) IN
  IF mi.t # "ok" THEN mi
  ELSE LET norm == NormIdx(idx) IN
       IF Len(norm) # Len(P.nodes) THEN Err("InvalidProof:count")
       ELSE LET f == WalkFirst(c, P, mi.v, norm, lv, 1, [cur |-> <<>>, ptr |-> <<>>, pt |-> pt0]) IN
            IF f.t # "ok" THEN f ELSE WalkUp(c, P, f.v, 1, D)

EmptyMap == <<>>
RECURSIVE PutAll(_, _, _, _)
PutAll(pt, idx, lv, k) == IF k > Len(idx) THEN pt ELSE PutAll(Put(pt, <<0, idx[k]>>, lv[k]), idx, lv, k + 1)

GetRoot(c, P, idx, lv) ==
  IF idx = <<>> THEN Err("TooFewLeafIndexes")
  ELSE LET w == Walk(c, P, idx, lv, EmptyMap) IN
       IF w.t # "ok" THEN w
       \* v.remove(&1): heap position 1 is (h, j) = (D, 0); it exists iff D >= 1 (then the walk ended there)
       ELSE IF P.depth >= 1 /\ Len(w.v.cur) = 1 /\ w.v.cur[1].j = 0 THEN Ok(w.v.cur[1].val)
       ELSE Err("InvalidProof:noroot")

\* get_proof(index, tree, depth)
GetProof(i, pt, D) ==
  IF <<0, i>> \notin DOMAIN pt THEN Err("InvalidProof:get_proof")
  ELSE IF \E h \in 0..(D - 1) : <<h, Xor1(Shr(i, h))>> \notin DOMAIN pt THEN Err("InvalidProof:get_proof")
  ELSE Ok(<<pt[<<0, i>>], [h \in 1..D |-> pt[<<h - 1, Xor1(Shr(i, h - 1))>>]]>>)

IntoOpenings(c, P, lv, idx) ==
  IF idx = <<>> THEN Err("TooFewLeafIndexes")
  ELSE IF Len(idx) # Len(lv) THEN Err("InvalidProof:lengths")
  ELSE IF P.depth >= 64 /\ DepthGuard THEN Err("InvalidProof:depth")
  ELSE IF P.depth >= 64 /\ OverflowChecks THEN Panic("1 << depth overflows")
  ELSE LET pt0 == PutAll(EmptyMap, idx, lv, 1)
           w == Walk(c, P, idx, lv, pt0)
       IN IF w.t # "ok" THEN w
          ELSE LET res == [k \in 1..Len(idx) |-> GetProof(idx[k], w.v.pt, P.depth)] IN
               IF \E k \in 1..Len(idx) : res[k].t # "ok" THEN Err("InvalidProof:get_proof")
               ELSE Ok([k \in 1..Len(idx) |-> res[k].v])

(***************************************************************************)
(* Denotational description of the batch-proof format (no loops):          *)
(* A(h) = ancestors at height h of the opened leaves.  Vector p (p-th pair *)
(* of leaves, ascending) holds the unopened leaves of that pair, then for  *)
(* every height h = 1..D-1 the sibling of the p-th element of A(h) when    *)
(* that sibling is not itself in A(h).                                     *)
(***************************************************************************)
Anc(S, h) == {Shr(i, h) : i \in S}

RECURSIVE ConcatUp(_, _, _, _, _, _)
ConcatUp(T, S, D, p, h, acc) ==
  IF h >= D THEN acc
  ELSE LET A == Anc(S, h)  sa == SortedSeq(A) IN
       ConcatUp(T, S, D, p, h + 1,
                IF p <= Len(sa) /\ Xor1(sa[p]) \notin A THEN Append(acc, T[2 ^ (D - h) + Xor1(sa[p])]) ELSE acc)

BatchNodes(T, n, idx) ==
  LET S == Rng(idx)  D == Log2(n)  a1 == SortedSeq(Anc(S, 1)) IN
  [p \in 1..Len(a1) |->
     ConcatUp(T, S, D, p, 1,
              (IF 2 * a1[p] \in S THEN <<>> ELSE <<T[n + 2 * a1[p]]>>)
              \o (IF 2 * a1[p] + 1 \in S THEN <<>> ELSE <<T[n + 2 * a1[p] + 1]>>))]
=============================================================================
