\* Design-level model with overflow checks ON and the proposed repair (depth >= 64 answers Err): must pass.
SPECIFICATION Spec
CONSTANTS FullUpTo = 16  EmitC18 = FALSE  EmitC19 = TRUE  OverflowChecks = TRUE  DepthGuard = TRUE
  Sizes = {2, 4}  MaxOrdered = 2  FileChunks = 0
  ShapeDepths = {1, 63, 64}  ShapeIdxAlphabet = {0, 1, 3}  ShapeMaxIdx = 2  ShapeLenAlphabet = {0, 1}  ShapeMaxVecs = 2
  Chunks <- ChunksImpl  CasesOf <- CasesOfImpl
INVARIANT Design
CHECK_DEADLOCK FALSE
