SPECIFICATION Spec
CONSTANTS N = 8  S = 4
INVARIANT NoUninitRead NoDoubleWrite Correct
CHECK_DEADLOCK FALSE
