SPECIFICATION Spec
CONSTANTS N = 8  S = 2
INVARIANT NoUninitRead NoDoubleWrite Correct
CHECK_DEADLOCK FALSE
