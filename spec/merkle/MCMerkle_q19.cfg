\* smoke configuration: trees of 2 and 4 leaves, everything emitted
SPECIFICATION Spec
CONSTANTS FullUpTo = 16  EmitC18 = FALSE  EmitC19 = TRUE  OverflowChecks = FALSE  DepthGuard = FALSE
  Sizes = {2, 4, 8}  MaxOrdered = 4  FileChunks = 0
  Chunks <- ChunksImpl  CasesOf <- CasesOfImpl
INVARIANT Design Emit
CHECK_DEADLOCK FALSE
