SPECIFICATION Spec
CONSTANTS N = 16  S = 8
INVARIANT NoUninitRead NoDoubleWrite Correct
CHECK_DEADLOCK FALSE
