------------------------------- MODULE Bytes -------------------------------
(* Byte-sequence helpers shared by all specifications. A byte string is a TLA+ sequence of
   integers 0..255. TLC integers are 32-bit, so only values < 2^31 are ever turned into integers;
   wide values stay little-endian byte sequences (winterfell's canonical encoding is little-endian). *)
EXTENDS Integers, Sequences

Min2(a, b) == IF a < b THEN a ELSE b
Max2(a, b) == IF a > b THEN a ELSE b

Pow2(n) == 2 ^ n

Take(s, n) == SubSeq(s, 1, Min2(n, Len(s)))
Drop(s, n) == SubSeq(s, n + 1, Len(s))

Byte == 0..255
IsBytes(s) == \A i \in 1..Len(s) : s[i] \in Byte

Zeros(n) == [i \in 1..n |-> 0]

(* little-endian encoding of n < 2^31 in k bytes (higher bytes zero) *)
LE(n, k) == [i \in 1..k |-> IF i <= 4 THEN (n \div (256 ^ (i - 1))) % 256 ELSE 0]

(* value of a little-endian byte string; only defined (fits TLC ints) when the value is < 2^31 *)
RECURSIVE FromLE(_)
FromLE(bs) == IF bs = <<>> THEN 0 ELSE bs[1] + 256 * FromLE(Tail(bs))

(* TRUE iff the little-endian value fits in 31 bits *)
FitsInt(bs) == /\ \A i \in 5..Len(bs) : bs[i] = 0
               /\ (Len(bs) < 4 \/ bs[4] < 128)

(* number of trailing zero bits of a byte; 8 for the zero byte *)
TZ8(b) == IF b = 0 THEN 8
          ELSE CHOOSE k \in 0..7 : (b % (2 ^ (k + 1)) # 0) /\ (b % (2 ^ k) = 0)

(* number of leading zero bits of a byte; 8 for the zero byte *)
LZ8(b) == IF b = 0 THEN 8 ELSE CHOOSE k \in 0..7 : b \div (2 ^ (7 - k)) = 1

(* logical shift right by k bits (0 <= k <= 8) of a little-endian byte string; same length *)
ShrBits(bs, k) ==
  [i \in 1..Len(bs) |->
      ((bs[i] \div (2 ^ k)) + (IF i < Len(bs) THEN (bs[i + 1] % (2 ^ k)) * (2 ^ (8 - k)) ELSE 0)) % 256]

(* logical shift left by k bits (0 <= k <= 8), result has Len(bs)+1 bytes *)
ShlBits(bs, k) ==
  [i \in 1..(Len(bs) + 1) |->
      ((IF i <= Len(bs) THEN (bs[i] * (2 ^ k)) % 256 ELSE 0)
        + (IF i > 1 THEN bs[i - 1] \div (2 ^ (8 - k)) ELSE 0)) % 256]

(* pad on the right (high end) with zeros up to n bytes *)
PadTo(bs, n) == IF Len(bs) >= n THEN bs ELSE bs \o Zeros(n - Len(bs))

(* strip high zero bytes *)
RECURSIVE Trim(_)
Trim(bs) == IF bs # <<>> /\ bs[Len(bs)] = 0 THEN Trim(SubSeq(bs, 1, Len(bs) - 1)) ELSE bs

(* concatenation of a sequence of byte strings *)
RECURSIVE Concat(_)
Concat(ss) == IF ss = <<>> THEN <<>> ELSE Head(ss) \o Concat(Tail(ss))
=============================================================================
