------------------------------- MODULE BigNat -------------------------------
(* Arbitrary-precision naturals for TLC (whose integers are 32-bit): a number is a little-endian
   sequence of base-256 digits — which is also winterfell's canonical element encoding, so recorded
   traces carry values as plain byte arrays.  All operators accept non-normalised inputs (high zero
   digits) and return normalised results unless stated otherwise.

   Used for mechanism D of DESIGN.md: `c = a*b mod p` is checked as  a*b = q*p + c /\ c < p  with q an
   untrusted hint from the recorder (the equation has a unique solution, so a wrong hint can only make
   a correct result look wrong, never a wrong result look right). *)
EXTENDS Integers, Sequences, Bytes

BN(n) == Trim(LE(n, 4))              \* from a TLC integer (< 2^31)
BZero == <<>>
BOne  == <<1>>
BIsZero(a) == Trim(a) = <<>>

Dig(a, i) == IF i <= Len(a) THEN a[i] ELSE 0

BLess(a, b) == LET n == Max2(Len(a), Len(b)) IN
               LET RECURSIVE Lt(_)
                   Lt(i) == IF i = 0 THEN FALSE
                            ELSE IF Dig(a, i) < Dig(b, i) THEN TRUE
                            ELSE IF Dig(a, i) > Dig(b, i) THEN FALSE
                            ELSE Lt(i - 1)
               IN Lt(n)
BEq(a, b)  == Trim(a) = Trim(b)
BLeq(a, b) == BLess(a, b) \/ BEq(a, b)

(* carry propagation over a sequence of non-negative "wide digits" (each < 2^31 - 2^23) *)
RECURSIVE Propagate(_, _, _, _)
Propagate(raw, i, carry, acc) ==
  IF i > Len(raw)
    THEN IF carry = 0 THEN acc ELSE Propagate(raw, i, carry \div 256, Append(acc, carry % 256))
    ELSE LET t == raw[i] + carry IN Propagate(raw, i + 1, t \div 256, Append(acc, t % 256))
Carry(raw) == Trim(Propagate(raw, 1, 0, <<>>))

BAdd(a, b) == LET n == Max2(Len(a), Len(b)) IN Carry([i \in 1..n |-> Dig(a, i) + Dig(b, i)])
BAddInt(a, k) == BAdd(a, BN(k))

(* a - b, requires a >= b *)
RECURSIVE SubFrom(_, _, _, _, _)
SubFrom(a, b, i, borrow, acc) ==
  IF i > Len(a) THEN acc
  ELSE LET t == Dig(a, i) - borrow IN
       IF t >= Dig(b, i) THEN SubFrom(a, b, i + 1, 0, Append(acc, t - Dig(b, i)))
       ELSE SubFrom(a, b, i + 1, 1, Append(acc, t + 256 - Dig(b, i)))
\* note: t can be -1 when Dig(a,i)=0 and borrow=1; Naturals subtraction of TLC yields an integer, fine
BSub(a, b) == Trim(SubFrom(a, b, 1, 0, <<>>))

(* schoolbook product; Len(a), Len(b) <= 64 keeps every column sum < 2^23 *)
BMul(a, b) ==
  IF a = <<>> \/ b = <<>> THEN <<>>
  ELSE LET n == Len(a) + Len(b) - 1
           Col(k) == LET lo == Max2(1, k + 1 - Len(b))
                         hi == Min2(Len(a), k)
                         RECURSIVE S(_)
                         S(i) == IF i > hi THEN 0 ELSE a[i] * b[k + 1 - i] + S(i + 1)
                     IN S(lo)
       IN Carry([k \in 1..n |-> Col(k)])

BMulInt(a, k) == Carry([i \in 1..Len(a) |-> a[i] * k])     \* k < 2^22
BSquare(a) == BMul(a, a)

(* quotient and remainder by a small integer d (0 < d < 2^22): <<q, r>> *)
BDivModInt(a, d) ==
  LET RECURSIVE Go(_, _, _)
      Go(i, rem, acc) == IF i = 0 THEN <<Trim(acc), rem>>
                         ELSE LET t == rem * 256 + a[i] IN
                              Go(i - 1, t % d, <<t \div d>> \o acc)
  IN Go(Len(a), 0, <<>>)

(* 2^k as a BigNat *)
BPow2(k) == Zeros(k \div 8) \o <<2 ^ (k % 8)>>

(* a has at most n bytes once normalised *)
BFits(a, n) == Len(Trim(a)) <= n

(* The witness relations ------------------------------------------------------------------------ *)
\* x = q*p + r  /\  r < p      (r is THE remainder of x modulo p)
IsDivMod(x, p, q, r) == /\ BEq(x, BAdd(BMul(q, p), r))
                        /\ BLess(r, p)
\* c = a*b mod p
IsModMul(a, b, c, q, p) == IsDivMod(BMul(a, b), p, q, c)
\* c = a + b mod p for a, b < p: no hint needed
ModAdd(a, b, p) == LET t == BAdd(a, b) IN IF BLess(t, p) THEN t ELSE BSub(t, p)
ModSub(a, b, p) == IF BLeq(b, a) THEN BSub(a, b) ELSE BSub(BAdd(a, p), b)
ModNeg(a, p)    == IF BIsZero(a) THEN <<>> ELSE BSub(p, a)
\* x mod p == r (mod p) given hint q with x = q*p + r' ... used when only congruence is wanted:
\* x ≡ y (mod p) with hint d = |x - y| / p
Congruent(x, y, d, p) == IF BLeq(y, x) THEN BEq(BSub(x, y), BMul(d, p)) ELSE BEq(BSub(y, x), BMul(d, p))

(* Hint-free reduction by binary long division (slow: ~8*Len(x) compare/subtract steps); used where
   the recorder cannot see intermediates. Returns x mod p. *)
RECURSIVE ModBits(_, _, _, _)
ModBits(x, p, bit, rem) ==
  \* processes bits of x from the most significant (index bit = 8*Len(x)-1) down to 0
  IF bit < 0 THEN rem
  ELSE LET byte == x[(bit \div 8) + 1]
           b    == (byte \div (2 ^ (bit % 8))) % 2
           r2   == BAddInt(BMulInt(rem, 2), b)
           r3   == IF BLess(r2, p) THEN r2 ELSE BSub(r2, p)
       IN ModBits(x, p, bit - 1, r3)
BMod(x, p) == IF x = <<>> THEN <<>> ELSE ModBits(x, p, 8 * Len(x) - 1, <<>>)
BModMul(a, b, p) == BMod(BMul(a, b), p)
=============================================================================
