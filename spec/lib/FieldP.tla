------------------------------- MODULE FieldP -------------------------------
(* Reference arithmetic of the toy prime fields F_P (P < 46341, so every product fits a TLC integer)
   and of their quadratic / cubic extensions, with the parameters the harness' `Toy<P, _>` types use
   (harness/common/src/toy.rs):
        P      generator  two-adicity  quadratic x^2 = r   cubic x^3 = c1*x + c0
        97     5          5            5                   (0, 2)
        193    5          6            5                   (0, 2)
        257    3          8            3                   (1, 1)
        40961  3          13           3                   (1, 4)
   A base element is an integer 0..P-1; an extension element is a tuple of base elements
   (<<a0, a1>> or <<a0, a1, a2>>), coefficient of x^0 first — the order winterfell's extension types
   use for base_element(i) and for serialization. All operators take P as their first argument. *)
EXTENDS Integers, Sequences

Gen(P)      == CASE P = 97 -> 5 [] P = 193 -> 5 [] P = 257 -> 3 [] P = 40961 -> 3
TwoAdic(P)  == CASE P = 97 -> 5 [] P = 193 -> 6 [] P = 257 -> 8 [] P = 40961 -> 13
QuadR(P)    == Gen(P)
CubC1(P)    == CASE P = 97 -> 0 [] P = 193 -> 0 [] P = 257 -> 1 [] P = 40961 -> 1
CubC0(P)    == CASE P = 97 -> 2 [] P = 193 -> 2 [] P = 257 -> 1 [] P = 40961 -> 4

FAdd(P, a, b) == (a + b) % P
FSub(P, a, b) == (a + P - b) % P
FNeg(P, a)    == (P - a) % P
FMul(P, a, b) == (a * b) % P

RECURSIVE FPow(_, _, _)
FPow(P, a, e) == IF e = 0 THEN 1
                 ELSE LET h == FPow(P, a, e \div 2) IN
                      IF e % 2 = 0 THEN (h * h) % P ELSE (((h * h) % P) * a) % P
FInv(P, a) == IF a = 0 THEN 0 ELSE FPow(P, a, P - 2)
FDiv(P, a, b) == FMul(P, a, FInv(P, b))

\* primitive 2^n-th root of unity, as StarkField::get_root_of_unity(n) must return
RootOfUnity(P, n) == FPow(P, FPow(P, Gen(P), (P - 1) \div (2 ^ TwoAdic(P))), 2 ^ (TwoAdic(P) - n))

(* ---- extensions: elements are tuples; degree = Len ---- *)
EAdd(P, a, b) == [i \in 1..Len(a) |-> FAdd(P, a[i], b[i])]
ESub(P, a, b) == [i \in 1..Len(a) |-> FSub(P, a[i], b[i])]
ENeg(P, a)    == [i \in 1..Len(a) |-> FNeg(P, a[i])]
EZero(d) == [i \in 1..d |-> 0]
EOne(d)  == [i \in 1..d |-> IF i = 1 THEN 1 ELSE 0]
EFromBase(d, b) == [i \in 1..d |-> IF i = 1 THEN b ELSE 0]

\* every product is reduced before it is added, so no intermediate exceeds 3 * P < 2^31
M(P, x, y) == (x * y) % P
EMul(P, a, b) ==
  CASE Len(a) = 1 -> <<M(P, a[1], b[1])>>
    [] Len(a) = 2 -> << (M(P, a[1], b[1]) + M(P, QuadR(P), M(P, a[2], b[2]))) % P,
                        (M(P, a[1], b[2]) + M(P, a[2], b[1])) % P >>
    [] Len(a) = 3 ->
         LET d0 == M(P, a[1], b[1])
             d1 == (M(P, a[1], b[2]) + M(P, a[2], b[1])) % P
             d2 == (M(P, a[1], b[3]) + M(P, a[2], b[2]) + M(P, a[3], b[1])) % P
             d3 == (M(P, a[2], b[3]) + M(P, a[3], b[2])) % P
             d4 == M(P, a[3], b[3])
         IN << (d0 + M(P, CubC0(P), d3)) % P,
               (d1 + M(P, CubC1(P), d3) + M(P, CubC0(P), d4)) % P,
               (d2 + M(P, CubC1(P), d4)) % P >>
EMulBase(P, a, b) == [i \in 1..Len(a) |-> FMul(P, a[i], b)]

RECURSIVE EPow(_, _, _)
EPow(P, a, e) == IF e = 0 THEN EOne(Len(a))
                 ELSE LET h == EPow(P, a, e \div 2) IN
                      IF e % 2 = 0 THEN EMul(P, h, h) ELSE EMul(P, EMul(P, h, h), a)
\* |F_{P^d}| - 2 does not fit 32 bits for d = 3 and P = 40961; invert through the norm instead:
\* a^-1 = a^(P + P^2 + ...) / Norm(a) with Norm(a) = a * a^P * a^(P^2) in the base field
EFrob(P, a) == EPow(P, a, P)
EInv(P, a) ==
  IF a = EZero(Len(a)) THEN a
  ELSE CASE Len(a) = 1 -> <<FInv(P, a[1])>>
         [] Len(a) = 2 -> LET c == EFrob(P, a)  n == EMul(P, a, c) IN EMulBase(P, c, FInv(P, n[1]))
         [] Len(a) = 3 -> LET c1 == EFrob(P, a)  c2 == EFrob(P, c1)  num == EMul(P, c1, c2)
                              n == EMul(P, a, num)
                          IN EMulBase(P, num, FInv(P, n[1]))
EDiv(P, a, b) == EMul(P, a, EInv(P, b))

\* all elements of the degree-d extension over a set S of base values
ESet(S, d) == CASE d = 1 -> {<<x>> : x \in S}
                [] d = 2 -> {<<x, y>> : x \in S, y \in S}
                [] d = 3 -> {<<x, y, z>> : x \in S, y \in S, z \in S}
=============================================================================
