---- MODULE TestFieldP ----
EXTENDS PolyP, TLC
ASSUME \A P \in {97, 193, 257, 40961} : FPow(P, Gen(P), P - 1) = 1 /\ FPow(P, Gen(P), (P - 1) \div 2) = P - 1
ASSUME \A P \in {97, 193, 257, 40961} : FPow(P, RootOfUnity(P, TwoAdic(P)), 2 ^ (TwoAdic(P) - 1)) = P - 1
ASSUME \A P \in {97, 257} : \A a \in 1..(P-1) : FMul(P, a, FInv(P, a)) = 1
ASSUME \A P \in {97, 40961} : \A a \in ESet({0, 1, 2, P - 1}, 2) : a = <<0,0>> \/ EMul(P, a, EInv(P, a)) = <<1, 0>>
ASSUME \A P \in {97, 257, 40961} : \A a \in ESet({0, 1, 3, P - 1}, 3) : a = <<0,0,0>> \/ EMul(P, a, EInv(P, a)) = <<1, 0, 0>>
ASSUME PDivMod(97, <<<<96>>, <<0>>, <<1>>>>, <<<<1>>, <<1>>>>, 1) = << <<<<96>>, <<1>>>>, <<>> >>
ASSUME LET c == <<<<3>>, <<0>>, <<5>>, <<96>>>> xs == <<<<1>>, <<2>>, <<7>>, <<50>>>>
       IN PInterpolate(97, xs, [i \in 1..4 |-> PEval(97, c, xs[i])], 1) = c
ASSUME PMul(97, <<<<1>>, <<1>>>>, <<<<96>>, <<1>>>>, 1) = <<<<96>>, <<0>>, <<1>>>>
ASSUME PFromRoots(97, <<<<1>>, <<96>>>>, 1) = <<<<96>>, <<0>>, <<1>>>>
====
