
