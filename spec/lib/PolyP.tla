------------------------------- MODULE PolyP -------------------------------
(* Reference polynomial algebra over the toy fields of FieldP, by the textbook definitions.
   A polynomial is a sequence of coefficients, constant term first; coefficients are extension
   tuples (degree-1 tuples <<c>> for the base field), so the same operators serve base and extension
   fields.  `d` is the extension degree of the coefficients. *)
EXTENDS FieldP

\* Horner evaluation at x (an extension tuple of the same degree)
RECURSIVE PEvalFrom(_, _, _, _)
PEvalFrom(P, c, x, i) == IF i > Len(c) THEN EZero(Len(x))
                         ELSE EAdd(P, c[i], EMul(P, x, PEvalFrom(P, c, x, i + 1)))
PEval(P, c, x) == IF c = <<>> THEN EZero(Len(x)) ELSE PEvalFrom(P, c, x, 1)

PZero(d, n) == [i \in 1..n |-> EZero(d)]
PCoef(c, i, d) == IF i <= Len(c) THEN c[i] ELSE EZero(d)

\* index of the highest non-zero coefficient (0 for the zero polynomial and constants)
RECURSIVE PDegFrom(_, _)
PDegFrom(c, i) == IF i = 0 THEN 0
                  ELSE IF c[i] # EZero(Len(c[i])) THEN i - 1 ELSE PDegFrom(c, i - 1)
PDeg(c) == PDegFrom(c, Len(c))
PIsZero(c) == \A i \in 1..Len(c) : c[i] = EZero(Len(c[i]))
\* strip leading (high) zero coefficients
PTrim(c) == IF PIsZero(c) THEN <<>> ELSE SubSeq(c, 1, PDeg(c) + 1)

PAdd(P, a, b, d) == LET n == IF Len(a) > Len(b) THEN Len(a) ELSE Len(b)
                    IN [i \in 1..n |-> EAdd(P, PCoef(a, i, d), PCoef(b, i, d))]
PSub(P, a, b, d) == LET n == IF Len(a) > Len(b) THEN Len(a) ELSE Len(b)
                    IN [i \in 1..n |-> ESub(P, PCoef(a, i, d), PCoef(b, i, d))]
PScale(P, a, k) == [i \in 1..Len(a) |-> EMul(P, a[i], k)]

\* schoolbook product; Len = Len(a)+Len(b)-1 (empty if either is empty)
PMul(P, a, b, d) ==
  IF a = <<>> \/ b = <<>> THEN <<>>
  ELSE LET n == Len(a) + Len(b) - 1
           RECURSIVE S(_, _)
           S(k, i) == IF i > Len(a) THEN EZero(d)
                      ELSE IF k + 1 - i >= 1 /\ k + 1 - i <= Len(b)
                             THEN EAdd(P, EMul(P, a[i], b[k + 1 - i]), S(k, i + 1))
                             ELSE S(k, i + 1)
       IN [k \in 1..n |-> S(k, 1)]

\* Euclidean division of a by b (b not zero): <<quotient, remainder>>, both trimmed
RECURSIVE PDivStep(_, _, _, _, _)
PDivStep(P, r, b, q, d) ==
  LET rt == PTrim(r)  bt == PTrim(b) IN
  IF Len(rt) < Len(bt) THEN <<q, rt>>
  ELSE LET sh == Len(rt) - Len(bt)
           f  == EDiv(P, rt[Len(rt)], bt[Len(bt)])
           sub == [i \in 1..Len(rt) |-> IF i > sh THEN EMul(P, f, bt[i - sh]) ELSE EZero(d)]
           q2 == [i \in 1..Len(q) |-> IF i = sh + 1 THEN f ELSE q[i]]
       IN PDivStep(P, PSub(P, rt, sub, d), b, q2, d)
PDivMod(P, a, b, d) ==
  LET at == PTrim(a)  bt == PTrim(b) IN
  IF Len(at) < Len(bt) THEN <<(<<>>), at>>
  ELSE LET r == PDivStep(P, at, bt, PZero(d, Len(at) - Len(bt) + 1), d) IN <<PTrim(r[1]), r[2]>>

\* product of (x - r) over a sequence of roots
RECURSIVE PFromRoots(_, _, _)
PFromRoots(P, roots, d) ==
  IF roots = <<>> THEN <<EOne(d)>>
  ELSE PMul(P, <<ENeg(P, Head(roots)), EOne(d)>>, PFromRoots(P, Tail(roots), d), d)

\* Lagrange interpolation through (xs[i], ys[i]) with distinct xs: coefficients, Len = Len(xs)
RECURSIVE LagSum(_, _, _, _, _)
LagSum(P, xs, ys, i, d) ==
  IF i > Len(xs) THEN PZero(d, Len(xs))
  ELSE LET others == [j \in 1..(Len(xs) - 1) |-> IF j < i THEN xs[j] ELSE xs[j + 1]]
           num == PFromRoots(P, others, d)
           den == PEval(P, num, xs[i])
           term == PScale(P, num, EDiv(P, ys[i], den))
       IN PAdd(P, term, LagSum(P, xs, ys, i + 1, d), d)
PInterpolate(P, xs, ys, d) == LagSum(P, xs, ys, 1, d)

\* evaluations of polynomial c over the domain offset * w^i, i = 0..n-1, natural order
RECURSIVE FPowers(_, _, _, _)
FPowers(P, start, w, n) == IF n = 0 THEN <<>> ELSE <<start>> \o FPowers(P, FMul(P, start, w), w, n - 1)
Domain(P, offset, w, n) == FPowers(P, offset, w, n)
PEvalDomain(P, c, offset, w, n, d) ==
  LET dom == Domain(P, offset, w, n) IN [i \in 1..n |-> PEval(P, c, EFromBase(d, dom[i]))]
=============================================================================
