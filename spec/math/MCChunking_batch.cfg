\* design level, quick: every interleaving of the chunk processes, n <= 20, threads 1..16, MinBatch
\* scaled to 4 and 1; batch_iter_mut! closures of get_power_series / batch_inversion (C14)
SPECIFICATION Spec
CONSTANTS MaxN = 20  MinBatches = {1, 4}  Ops = {"pow", "inv"}  GuardEmpty = TRUE  MaxStates = 5000
INVARIANT Partition NoRace InBounds Final
CHECK_DEADLOCK FALSE
