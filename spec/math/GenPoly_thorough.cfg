\* C13 thorough tier: larger bounds, more and longer random cases (about 290 k cases).
SPECIFICATION Spec
CONSTANTS LEval = 5  LEvalX = 4  LPair = 3  LScal = 4  LDivA = 4  LDivB = 3  LSyn = 5  LSynR = 4
          LInt = 3  LRoots = 5  LDeg = 6  NRand = 150  RandLen = 24
ACTION_CONSTRAINT Emit
CHECK_DEADLOCK FALSE
