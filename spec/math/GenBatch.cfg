\* C14 quick tier
SPECIFICATION Spec
CONSTANTS MaxSmall = 70
          BigLens = {1023, 1024, 1025, 2047, 2048, 2049, 2050, 3071, 3072, 4095, 4096, 4097, 4100, 5000, 8192, 8193, 16384, 16385}
          NRandLens = 4  MaxRandLen = 5000
          ExtBigLens = {1025, 2048, 4097}
          Fams = {"inv", "pow", "arith", "shape"}
ACTION_CONSTRAINT Emit
CHECK_DEADLOCK FALSE
