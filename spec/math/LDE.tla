--------------------------------- MODULE LDE ---------------------------------
(* C28 — trace / composition low-degree extensions and row commitments.

   DEFINITIONS (nothing here is shaped like an FFT or like a segment):
     a column polynomial is its coefficient list c_0 .. c_{n-1} (base or toy-extension elements)
     N = n * blowup,  w = RootOfUnity(P, log2 N),  x_r = offset * w^r  (r = 0..N-1, NATURAL order)
     LDE row r            = << p_1(x_r), .., p_k(x_r) >>                       (RowMatrix rows, ColMatrix.get(c, r))
     trace row i          = << p_1(g^i), .., p_k(g^i) >>,  g = RootOfUnity(P, log2 n)
     interpolate_columns  = the inverse of "trace": from the k columns of trace values back to p_1..p_k
                            (THE polynomials of degree < n through the trace; TLC computes the trace from
                             the coefficients, so the expected answer is the coefficient lists themselves)
     evaluate_columns_at(z) = << p_1(z), .., p_k(z) >>  for z in E
   Values are computed by Horner per coordinate with native integers (EvalPt) and cross-checked against
   PolyP!PEval at one point of every case (CheckPt).

   ROW COMMITMENTS (symbolic hashing, mechanism C).  The VERIFIER's rule (verifier/src/channel.rs hash_row
   with PartitionOptions::partition_size, air/src/options.rs):
     psize = k                                          if num_partitions = 1
           = max(ceil(k / num_partitions), hash_rate \div d)   otherwise        (d = extension degree of the row's field)
     RowDigest(row) = HashElems(row)                                     if psize = k
                    = MergeMany(<< HashElems(chunk_1), .. >>), chunks of psize elements (the last may be shorter) otherwise
     commitment = Root(<< RowDigest(row_0), .., RowDigest(row_{N-1}) >>)        (the vector commitment: Merkle root)
   The scenario carries the digest TERM of a row as a schema over column ranges — ["he", lo, hi] or
   ["mm", [[lo, hi], ..]] — the harness evaluates it with the real hasher on the rows of the real matrix
   (whose values the `lde` engine checks) and MerkleTree::new(..).root(), and compares with
   RowMatrix::commit_to_rows(partition_options).commitment().
   Design level (TLC, every (k, d, partitions, rate)): ChunksCover — the chunks tile the row;
   ProverRule — the chunk count the prover allocates (PartitionOptions::num_partitions) is the number of
   chunks the verifier's rule produces, and both take the single-hash branch together.

   FAMILIES   small  F_257, n in 8..64, blowup 2..16 (N <= 128), k = 1..20, d in 1..3: complete rows, trace, points
              big    F_40961, n in 1024..4096: dense polynomials, a seeded sample of LDE rows
              bigint F_40961, n = 1024, 2048: sparse polynomials with their complete trace (interpolation)
              part   partition schemas for k = 1..20, d = 1..3, partitions 1..16, several hash rates
                     (small matrices over F_257 / F_40961; the same scenarios are replayed over f64 with Rp64_256) *)
EXTENDS PolyP, Rand, TLC, Json, FiniteSets, FiniteSetsExt, SequencesExt

CONSTANTS Fams,       \* subset of {"small", "big", "bigint", "part", "bigpart"}
          SmallKs,    \* column counts of family small
          BigCases,   \* set of <<n, blowup, k, d>> for family big
          NRows,      \* sampled LDE rows per big case
          PartKs      \* column counts of family part

VARIABLES case, phase
vars == <<case, phase>>

Log2(n) == CHOOSE k \in 0..13 : 2 ^ k = n
Max2(a, b) == IF a > b THEN a ELSE b
CeilDiv(a, b) == (a + b - 1) \div b

(***************************************************************************)
(* evaluation                                                              *)
(***************************************************************************)
HInt(P, c, t, x) == FoldRight(LAMBDA cj, acc : (cj[t] + x * acc) % P, c, 0)
EvalPt(P, c, x, d) == CASE d = 1 -> <<HInt(P, c, 1, x)>>
                        [] d = 2 -> <<HInt(P, c, 1, x), HInt(P, c, 2, x)>>
                        [] d = 3 -> <<HInt(P, c, 1, x), HInt(P, c, 2, x), HInt(P, c, 3, x)>>
\* the generic Horner with full extension products (at extension points, and as the cross-check)
PEvalGen(P, c, x) == FoldRight(LAMBDA cj, acc : EAdd(P, cj, EMul(P, x, acc)), c, EZero(Len(x)))
CheckPt(P, c, x, d, val) == Assert(PEvalGen(P, c, EFromBase(d, x)) = val, <<"EvalPt disagrees with the generic Horner", P, d, x>>)

\* x_r for the rows in idx (0-based row numbers)
RowPoint(P, N, offset, r) == FMul(P, offset, FPow(P, RootOfUnity(P, Log2(N)), r))
\* row r of the LDE of the columns `polys`
Row(P, polys, d, x) == Mat([c \in 1..Len(polys) |-> EvalPt(P, polys[c], x, d)], Len(polys))

JE(e) == IF Len(e) = 1 THEN e[1] ELSE e
JP(p) == [i \in 1..Len(p) |-> JE(p[i])]
JPP(ps) == [i \in 1..Len(ps) |-> JP(ps[i])]

(***************************************************************************)
(* the verifier's partition rule                                           *)
(***************************************************************************)
PartitionSize(np, rate, k, d) == IF np = 1 THEN k ELSE Max2(CeilDiv(k, np), rate \div d)
\* chunks of a k-element row as 0-based half-open ranges <<lo, hi>>
Chunks(k, psize) == [i \in 1..CeilDiv(k, psize) |-> <<(i - 1) * psize, IF i * psize < k THEN i * psize ELSE k>>]
RowTerm(np, rate, k, d) ==
  LET ps == PartitionSize(np, rate, k, d) IN
  IF ps = k THEN <<"he", 0, k>> ELSE <<"mm", Chunks(k, ps)>>

\* code-shaped prover side (prover/src/matrix/row_matrix.rs commit_to_rows): single-hash branch iff
\* partition_size = num_cols, else a buffer of num_partitions::<E>(num_cols) chunk digests
ProverSingle(np, rate, k, d) == PartitionSize(np, rate, k, d) = k
ProverBuffer(np, rate, k, d) == CeilDiv(k, PartitionSize(np, rate, k, d))

PartUniverse == {<<np, rate, k, d>> : np \in 1..16, rate \in {1, 2, 3, 4, 7, 8, 12, 16, 255}, k \in 1..24, d \in 1..3}
ChunksCover ==
  \A u \in PartUniverse :
    LET ps == PartitionSize(u[1], u[2], u[3], u[4])
        ch == Chunks(u[3], ps)
    IN /\ ps >= 1
       /\ Len(ch) >= 1 /\ ch[1][1] = 0 /\ ch[Len(ch)][2] = u[3]
       /\ \A i \in 1..Len(ch) : ch[i][1] < ch[i][2] /\ ch[i][2] - ch[i][1] <= ps
       /\ \A i \in 1..(Len(ch) - 1) : ch[i][2] = ch[i + 1][1] /\ ch[i][2] - ch[i][1] = ps
       /\ Len(ch) <= u[1]
ProverRule ==
  \A u \in PartUniverse :
    LET ps == PartitionSize(u[1], u[2], u[3], u[4]) IN
    /\ ProverSingle(u[1], u[2], u[3], u[4]) <=> (RowTerm(u[1], u[2], u[3], u[4])[1] = "he")
    /\ ~ProverSingle(u[1], u[2], u[3], u[4]) => ProverBuffer(u[1], u[2], u[3], u[4]) = Len(Chunks(u[3], ps))

\* constant-level: checked once, when TLC starts
ASSUME PartitionDesign == ChunksCover /\ ProverRule

(***************************************************************************)
(* cases                                                                   *)
(***************************************************************************)
SmallShapes == << <<8, 2>>, <<8, 4>>, <<8, 8>>, <<8, 16>>, <<16, 2>>, <<16, 4>>, <<16, 8>>, <<32, 2>>, <<32, 4>>, <<64, 2>> >>
SmallCases == {[fam |-> "small", P |-> 257, s |-> s, k |-> k] : s \in 1..Len(SmallShapes), k \in SmallKs}
BigC == {[fam |-> "big", P |-> 40961, n |-> q[1], blowup |-> q[2], k |-> q[3], d |-> q[4]] : q \in BigCases}
BigIntCases == {[fam |-> "bigint", P |-> 40961, n |-> n, k |-> k] : n \in {1024, 2048}, k \in {3, 9}}
PartOpts == << <<1, 1>>, <<2, 8>>, <<4, 8>>, <<16, 1>>, <<3, 4>>, <<4, 12>>, <<7, 2>>, <<2, 255>>, <<16, 8>> >>
PartCases == {[fam |-> "part", P |-> 257, k |-> k, d |-> d] : k \in PartKs, d \in 1..3}
BigPartCases == {[fam |-> "bigpart", P |-> 40961, k |-> k, d |-> d] : k \in {7, 20}, d \in {1, 2}}

Cases == (IF "small" \in Fams THEN SmallCases ELSE {}) \cup (IF "big" \in Fams THEN BigC ELSE {})
         \cup (IF "bigint" \in Fams THEN BigIntCases ELSE {}) \cup (IF "part" \in Fams THEN PartCases ELSE {})
         \cup (IF "bigpart" \in Fams THEN BigPartCases ELSE {})
\* TLC computes initial states in one thread: every case takes one step, and the scenario is emitted on
\* the state after it, by the workers
Init == phase = 0 /\ case \in Cases
Next == phase = 0 /\ phase' = 1 /\ UNCHANGED case
Spec == Init /\ [][Next]_vars

(***************************************************************************)
(* scenarios                                                               *)
(***************************************************************************)
Polys(P, d, st, n, k) == Mat([c \in 1..k |-> RPoly(P, d, st + 37 * c, n)], k)

SmallScenario(c) ==
  LET P == c.P
      n == SmallShapes[c.s][1]  b == SmallShapes[c.s][2]  k == c.k
      d == 1 + ((c.k + c.s) % 3)
      N == n * b
      st == Stream(700 + c.s, c.k)
      polys == Polys(P, d, st, n, k)
      \* even cases use the offset evaluate_polys uses (the field generator), odd ones a seeded offset
      offset == IF (c.k + c.s) % 2 = 0 THEN Gen(P) ELSE 1 + (Rnd(st, 3) % (P - 1))
      xs == Mat([r \in 1..N |-> RowPoint(P, N, offset, r - 1)], N)
      rows == Mat([r \in 1..N |-> Row(P, polys, d, xs[r])], N)
      g == RootOfUnity(P, Log2(n))
      trace == Mat([i \in 1..n |-> Row(P, polys, d, FPow(P, g, i - 1))], n)
      zs == Mat([i \in 1..3 |-> RElem(P, d, st, 50 + i)], 3)
      chk == 1 + (Rnd(st, 4) % N)
      cc == 1 + (Rnd(st, 5) % k)
  IN IF CheckPt(P, polys[cc], xs[chk], d, rows[chk][cc])
       THEN [fam |-> "lde", P |-> P, d |-> d, n |-> n, blowup |-> b, k |-> k, offset |-> offset, gen |-> Gen(P),
             polys |-> JPP(polys),
             idx |-> [r \in 1..N |-> r - 1], rows |-> JPP(rows),
             \* trace[c][i] = p_c(g^i): the columns handed to interpolate_columns
             trace |-> [cl \in 1..k |-> [i \in 1..n |-> JE(trace[i][cl])]],
             zs |-> JP(zs), at |-> [i \in 1..3 |-> JP([cl \in 1..k |-> PEvalGen(P, polys[cl], zs[i])])]]
       ELSE [fam |-> "error"]

BigScenario(c) ==
  LET P == c.P  n == c.n  b == c.blowup  k == c.k  d == c.d
      N == n * b
      st == Stream(720 + Log2(n), k + d)
      polys == Polys(P, d, st, n, k)
      offset == IF k % 2 = 0 THEN Gen(P) ELSE 1 + (Rnd(st, 3) % (P - 1))
      idx == Mat([j \in 1..NRows |-> CASE j = 1 -> 0 [] j = 2 -> N - 1 [] j = 3 -> n [] j = 4 -> N \div 2 + 1
                                        [] OTHER -> Rnd(st, 100 + j) % N], NRows)
      rows == Mat([j \in 1..NRows |-> Row(P, polys, d, RowPoint(P, N, offset, idx[j]))], NRows)
      zs == Mat([i \in 1..2 |-> RElem(P, d, st, 50 + i)], 2)
  IN IF CheckPt(P, polys[k], RowPoint(P, N, offset, idx[2]), d, rows[2][k])
       THEN [fam |-> "lde", P |-> P, d |-> d, n |-> n, blowup |-> b, k |-> k, offset |-> offset, gen |-> Gen(P),
             polys |-> JPP(polys), idx |-> idx, rows |-> JPP(rows), trace |-> <<>>,
             zs |-> JP(zs), at |-> [i \in 1..2 |-> JP([cl \in 1..k |-> PEvalGen(P, polys[cl], zs[i])])]]
       ELSE [fam |-> "error"]

\* sparse polynomials (t terms) with their complete trace: p(g^i) = SUM coef * g^(i * pos)
BigIntScenario(c) ==
  LET P == c.P  n == c.n  k == c.k
      d == 1 + (k % 2)
      st == Stream(740 + Log2(n), k)
      g == RootOfUnity(P, Log2(n))
      gp == Mat([i \in 1..n |-> FPow(P, g, i - 1)], n)                 \* g^(i-1)
      nt(cl) == 1 + (cl % 4)
      pos(cl) == [t \in 1..nt(cl) |-> IF t = 1 /\ cl % 2 = 1 THEN n - 1 ELSE Rnd(st, 10 * cl + t) % n]
      val(cl) == [t \in 1..nt(cl) |-> LET e == RElem(P, d, st, 20 * cl + t) IN IF e = EZero(d) THEN EOne(d) ELSE e]
      \* coefficient lists (later terms at an occupied position are added)
      CoefAt(cl, j) == LET ts == {t \in 1..nt(cl) : pos(cl)[t] = j}
                           RECURSIVE S(_)
                           S(T) == IF T = {} THEN EZero(d) ELSE LET t == CHOOSE t \in T : TRUE IN EAdd(P, val(cl)[t], S(T \ {t}))
                       IN S(ts)
      polys == Mat([cl \in 1..k |-> Mat([j \in 1..n |-> CoefAt(cl, j - 1)], n)], k)
      TraceAt(cl, i) == LET RECURSIVE S(_)
                            S(t) == IF t > nt(cl) THEN EZero(d)
                                    ELSE EAdd(P, EMulBase(P, val(cl)[t], gp[(((i - 1) * pos(cl)[t]) % n) + 1]), S(t + 1))
                        IN S(1)
      trace == Mat([cl \in 1..k |-> Mat([i \in 1..n |-> TraceAt(cl, i)], n)], k)
      chk == 1 + (Rnd(st, 4) % n)
  IN IF CheckPt(P, polys[k], gp[chk], d, trace[k][chk])
       THEN [fam |-> "interp", P |-> P, d |-> d, n |-> n, k |-> k, polys |-> JPP(polys), trace |-> JPP(trace)]
       ELSE [fam |-> "error"]

\* commitments: polynomials, options and the digest term schema of a row
PartScenario(c, n, b) ==
  LET P == c.P  k == c.k  d == c.d
      st == Stream(760 + d, k + n)
      polys == Polys(P, d, st, n, k)
  IN [fam |-> "commit", P |-> P, d |-> d, n |-> n, blowup |-> b, k |-> k, polys |-> JPP(polys),
      opts |-> [i \in 1..Len(PartOpts) |->
                  [np |-> PartOpts[i][1], rate |-> PartOpts[i][2],
                   psize |-> PartitionSize(PartOpts[i][1], PartOpts[i][2], k, d),
                   term |-> <<"root", n * b, RowTerm(PartOpts[i][1], PartOpts[i][2], k, d)>>]],
      \* ColMatrix::commit_to_rows has no partitions: every row is hashed whole (n rows: the polynomials' own matrix)
      colterm |-> <<"root", n, <<"he", 0, k>> >>]

Scenario(c) ==
  CASE c.fam = "small"   -> SmallScenario(c)
    [] c.fam = "big"     -> BigScenario(c)
    [] c.fam = "bigint"  -> BigIntScenario(c)
    [] c.fam = "part"    -> PartScenario(c, 8, 2 ^ (1 + (c.k % 3)))
    [] c.fam = "bigpart" -> PartScenario(c, 1024, 2)
Emit == phase = 1 => PrintT(<<"REPLAY", ToJson(Scenario(case))>>)
=============================================================================
