\* C13 quick tier: every case of every family below the bounds + NRand seeded random cases per
\* operation and field.  One REPLAY line per case (ACTION_CONSTRAINT on the only step).
SPECIFICATION Spec
CONSTANTS LEval = 4  LEvalX = 3  LPair = 3  LScal = 3  LDivA = 3  LDivB = 3  LSyn = 4  LSynR = 3
          LInt = 3  LRoots = 4  LDeg = 5  NRand = 12  RandLen = 12
ACTION_CONSTRAINT Emit
CHECK_DEADLOCK FALSE
