\* fill_power_series AS FOUND (no guard for an empty batch): TLC is EXPECTED to report InBounds
\* violated for n = 0 — the design-level counterpart of the get_power_series(b, 0) panic.  Not a gate.
SPECIFICATION Spec
CONSTANTS MaxN = 3  MinBatches = {4}  Ops = {"pow"}  GuardEmpty = FALSE  MaxStates = 20000
CONSTANTS Threads = {1, 2, 3, 4, 5, 6, 7, 8, 9, 10, 11, 12, 13, 14, 15, 16}  PermRule = "pow2"
INVARIANT InBounds
CHECK_DEADLOCK FALSE
