\* C28 thorough
SPECIFICATION Spec
CONSTANTS Fams = {"small", "big", "bigint", "part", "bigpart"}  NRows = 12
  SmallKs <- KsAll  BigCases <- BigThorough  PartKs <- KsAll
INVARIANT Emit
CHECK_DEADLOCK FALSE
