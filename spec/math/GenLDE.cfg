\* C28 quick
SPECIFICATION Spec
CONSTANTS Fams = {"small", "big", "bigint", "part", "bigpart"}  NRows = 6
  SmallKs <- KsAll  BigCases <- BigQuick  PartKs <- KsAll
INVARIANT Emit
CHECK_DEADLOCK FALSE
