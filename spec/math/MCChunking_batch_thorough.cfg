\* design level, thorough: n <= 40, MinBatch scaled to 8, 4 and 1; batch_iter_mut! closures of get_power_series / batch_inversion (C14)
SPECIFICATION Spec
CONSTANTS MaxN = 40  MinBatches = {1, 4, 8}  Ops = {"pow", "inv"}  GuardEmpty = TRUE  MaxStates = 40000
INVARIANT Partition NoRace InBounds Final
CHECK_DEADLOCK FALSE
