\* design level, quick: every interleaving of the chunk processes, n <= 20, threads 1..16, MinBatch
\* scaled to 4 and 1; fft::concurrent::permute and the clone_and_shift / shift-by-series batches (C12)
SPECIFICATION Spec
CONSTANTS MaxN = 20  MinBatches = {1, 4}  Ops = {"perm", "pow"}  GuardEmpty = TRUE  MaxStates = 3000
CONSTANTS Threads = {1, 2, 3, 4, 5, 6, 7, 8, 9, 10, 11, 12, 13, 14, 15, 16}  PermRule = "pow2"
INVARIANT Partition NoRace InBounds Final
CHECK_DEADLOCK FALSE
