\* C14 thorough tier: more lengths (up to 20 000, so that 16 threads split the work too), more
\* extension-field cases
SPECIFICATION Spec
CONSTANTS MaxSmall = 100
          BigLens = {1023, 1024, 1025, 1026, 2047, 2048, 2049, 2050, 3071, 3072, 3073, 4095, 4096, 4097, 4100, 5000, 6143, 6144,
                     8191, 8192, 8193, 8200, 12288, 16383, 16384, 16385, 16400, 20000}
          NRandLens = 30  MaxRandLen = 20000
          ExtBigLens = {1024, 1025, 2048, 2049, 4096, 4097, 8192, 8193, 16384, 16385}
          Fams = {"inv", "pow", "arith", "shape"}
ACTION_CONSTRAINT Emit
CHECK_DEADLOCK FALSE
