\* C12 thorough tier: every unit vector and every blowup over F_257 in all three extension degrees,
\* more big cases, more sampled indices, complete outputs of dense cases up to N = 1024.
SPECIFICATION Spec
CONSTANTS AllUnits257 = TRUE  Degs257 = {1, 2, 3}  MaxBlow257 = 128  NRnd = 4
          BigSizes = {64, 128, 256, 512, 1024, 2048, 4096, 8192}  NSparse = 20  NDense = 20  KIdx = 200  FullUpTo = 2048  NGrid = 3
          Fams = {"small97", "small257", "sparse", "dense", "grid", "pidx", "rows"}
ACTION_CONSTRAINT Emit
CHECK_DEADLOCK FALSE
