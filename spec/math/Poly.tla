-------------------------------- MODULE Poly --------------------------------
(* C13 — polynomial helpers of winter_math::polynom (math/src/polynom/mod.rs).

   The MEANING of every helper is stated here with the textbook operators of PolyP.tla over the toy
   fields of FieldP.tla (mechanism F); nothing in this module is shaped like the Rust code.

     eval(p, x)                = PEval(p, x)            (p over the base field or the extension, x in the extension)
     eval_many(p, xs)[i]       = PEval(p, xs[i])
     add / sub (a, b)          = coefficient-wise, length max(|a|, |b|)
     mul(a, b)                 = convolution, length |a| + |b| - 1        (not both empty: the documented length would be -1)
     mul_by_scalar(p, k)[i]    = p[i] * k
     div(a, b)                 = the quotient q of Euclidean division: a = q*b + r, deg r < deg b
                                 documented length |a| - |b| + 1 (exact when neither operand carries leading zeros)
     syn_div(p, a, b)          = quotient of p by x^a - b, zero-padded to |p|      (a >= 1, b # 0, |p| > a)
     syn_div_roots_in_place    = quotient of p by PROD (x - r_i), zero-padded to |p| (1 <= |roots| < |p|)
     interpolate(xs, ys, rlz)  = the unique polynomial of degree < n through the n points (xs distinct),
                                 n coefficients, or trimmed when rlz
     interpolate_batch         = the same, batch by batch (arrays of N points)
     poly_from_roots(xs)       = PROD (x - xs[i]),  |xs| + 1 coefficients
     degree_of(p)              = index of the highest non-zero coefficient, 0 for zero / empty
     remove_leading_zeros(p)   = p without its high zero coefficients

   Preconditions documented by the code (non-zero divisor of degree <= dividend's, b # 0 and |p| > a for
   syn_div, 1 <= |roots| < |p|, distinct interpolation abscissae) are part of the case sets below.
   Inputs the documentation does not exclude ARE generated (empty dividend, abscissa 0, zero roots).

   Every case is an initial state; the single step phase 0 -> 1 exists only so that TLC's workers
   evaluate the expected results in parallel; the ACTION_CONSTRAINT Emit prints the case with its
   complete expected outputs.  The reference operators check their own defining equations
   (q*b + r = a, interpolant passes through the points) with Assert, so a slip in PolyP.tla is a TLC
   error (tool error), never a wrong expectation. *)
EXTENDS PolyP, Rand, TLC, Json, FiniteSets

CONSTANTS
  LEval,     \* max length of p in eval cases (base field, all 97 points)
  LEvalX,    \* max length of p in eval cases over / into extensions
  LPair,     \* max length of a and b in add/sub/mul cases
  LScal,     \* max length in mul_by_scalar cases
  LDivA, LDivB,   \* max lengths of dividend and divisor
  LSyn,      \* max length of p in syn_div cases
  LSynR,     \* max length of p in syn_div_roots cases
  LInt,      \* max number of points for which every (xs, ys) combination is enumerated
  LRoots,    \* max number of roots
  LDeg,      \* max length for degree_of / remove_leading_zeros
  NRand,     \* random cases per operation and field
  RandLen    \* max length of random polynomials

VARIABLES case, phase
vars == <<case, phase>>

(***************************************************************************)
(* element and vector sets                                                 *)
(***************************************************************************)
Elems(P, d) == CASE d = 1 -> {<<0>>, <<1>>, <<2>>, <<P - 1>>}
                 [] d = 2 -> {<<0, 0>>, <<1, 0>>, <<0, 1>>, <<P - 1, 2>>}
                 [] d = 3 -> {<<0, 0, 0>>, <<1, 0, 0>>, <<0, 0, 1>>, <<2, P - 1, 1>>}
Vecs(S, lo, hi) == UNION {[1..k -> S] : k \in lo..hi}
\* a fifth value per field, used where "other" values are wanted
Other(P, d) == CASE d = 1 -> <<50>> [] d = 2 -> <<7, 50>> [] d = 3 -> <<50, 0, 7>>
\* abscissae for interpolation (zero included: the documentation does not exclude it)
Points(P, d) == CASE d = 1 -> << <<0>>, <<1>>, <<2>>, <<P - 1>>, <<50>> >>
                  [] d = 2 -> << <<0, 0>>, <<1, 0>>, <<0, 1>>, <<P - 1, 2>>, <<1, 1>> >>
                  [] d = 3 -> << <<0, 0, 0>>, <<1, 0, 0>>, <<0, 0, 1>>, <<2, P - 1, 1>>, <<1, 0, 1>> >>
DistinctIdx(n, K) == {s \in [1..n -> 1..K] : \A i, j \in 1..n : i < j => s[i] # s[j]}

S4(P) == <<0, 1, 2, P - 1>>
\* evaluation points: every element of the base field; a 4^d grid in the extensions
EvalPoints(P, d) ==
  CASE d = 1 -> [i \in 1..P |-> <<i - 1>>]
    [] d = 2 -> [i \in 1..16 |-> <<S4(P)[((i - 1) \div 4) + 1], S4(P)[((i - 1) % 4) + 1]>>]
    [] d = 3 -> [i \in 1..64 |-> <<S4(P)[((i - 1) \div 16) + 1], S4(P)[(((i - 1) \div 4) % 4) + 1], S4(P)[((i - 1) % 4) + 1]>>]

\* seeded pseudo-random values: module Rand
NonZero(P, e) == IF e = EZero(Len(e)) THEN EOne(Len(e)) ELSE e
WithTop(P, p) == [i \in 1..Len(p) |-> IF i = Len(p) THEN NonZero(P, p[i]) ELSE p[i]]
ZPad(p, k, d) == p \o [i \in 1..k |-> EZero(d)]

(***************************************************************************)
(* reference results                                                       *)
(***************************************************************************)
Pad(p, n, d) == [i \in 1..n |-> PCoef(p, i, d)]
Lift(c, de) == IF Len(c) = de THEN c ELSE EFromBase(de, c[1])
XaMinusB(P, a, b, d) ==
  [i \in 1..(a + 1) |-> IF i = 1 THEN ENeg(P, b) ELSE IF i = a + 1 THEN EOne(d) ELSE EZero(d)]

\* quotient of Euclidean division, with the defining equation checked
Quot(P, a, b, d) ==
  LET qr == PDivMod(P, a, b, d)
      back == PTrim(PAdd(P, PMul(P, qr[1], PTrim(b), d), qr[2], d))
  IN IF Assert(back = PTrim(a) /\ Len(qr[2]) < Len(PTrim(b)), <<"PDivMod broke a = q*b + r", a, b, qr>>)
       THEN qr[1] ELSE <<>>

Interp(P, xs, ys, d) ==
  LET c == PInterpolate(P, xs, ys, d)
  IN IF Assert(Len(c) = Len(xs) /\ \A i \in 1..Len(xs) : PEval(P, c, xs[i]) = ys[i],
               <<"PInterpolate misses a point", xs, ys, c>>)
       THEN c ELSE <<>>

MulSpec(P, a, b, d) ==
  IF a # <<>> /\ b # <<>> THEN PMul(P, a, b, d) ELSE PZero(d, Len(a) + Len(b) - 1)

TopNonZero(p) == p # <<>> /\ p[Len(p)] # EZero(Len(p[Len(p)]))
DivOk(a, b) == b # <<>> /\ ~PIsZero(b) /\ PDeg(b) <= PDeg(a)

(***************************************************************************)
(* JSON shapes: base elements as integers, extension elements as arrays    *)
(***************************************************************************)
JE(e) == IF Len(e) = 1 THEN e[1] ELSE e
JP(p) == [i \in 1..Len(p) |-> JE(p[i])]
JPP(ps) == [i \in 1..Len(ps) |-> JP(ps[i])]

(***************************************************************************)
(* case families                                                           *)
(***************************************************************************)
Fields == {<<97, 1>>, <<97, 2>>, <<97, 3>>}
FieldsR == {<<97, 1>>, <<97, 2>>, <<97, 3>>, <<257, 1>>, <<257, 2>>, <<40961, 1>>, <<40961, 3>>}

CEval == {[op |-> "eval", P |-> 97, db |-> 1, de |-> 1, p |-> p] : p \in Vecs(Elems(97, 1), 0, LEval)}
         \cup UNION {{[op |-> "eval", P |-> 97, db |-> f[1], de |-> f[2], p |-> p] : p \in Vecs(Elems(97, f[1]), 0, LEvalX)} :
                        f \in {<<1, 2>>, <<1, 3>>, <<2, 2>>, <<3, 3>>}}
CArithF(P, d) == {[op |-> "arith", P |-> P, d |-> d, a |-> a, b |-> b] :
                     a \in Vecs(Elems(P, d), 0, LPair), b \in Vecs(Elems(P, d), 0, LPair)}
CScalF(P, d) == {[op |-> "scalar", P |-> P, d |-> d, p |-> p, k |-> k] :
                     p \in Vecs(Elems(P, d), 0, LScal), k \in Elems(P, d) \cup {Other(P, d)}}
CDivF(P, d) == {c \in {[op |-> "div", P |-> P, d |-> d, a |-> a, b |-> b] :
                     a \in Vecs(Elems(P, d), 0, LDivA), b \in Vecs(Elems(P, d), 1, LDivB)} : DivOk(c.a, c.b)}
CSynF(P, d) == {c \in {[op |-> "syn", P |-> P, d |-> d, p |-> p, a |-> a, b |-> b] :
                     a \in 1..4, b \in (Elems(P, d) \ {EZero(d)}) \cup {Other(P, d)}, p \in Vecs(Elems(P, d), 2, LSyn)} :
                  Len(c.p) > c.a}
CSynRF(P, d) == {c \in {[op |-> "synroots", P |-> P, d |-> d, p |-> p, roots |-> r] :
                     p \in Vecs(Elems(P, d), 2, LSynR), r \in Vecs(Elems(P, d), 1, LSynR - 1)} :
                  Len(c.p) > Len(c.roots)}
CInterpN(P, d, n) == {[op |-> "interp", P |-> P, d |-> d, xs |-> [i \in 1..n |-> Points(P, d)[s[i]]], ys |-> ys, rlz |-> z] :
                     s \in DistinctIdx(n, 5), ys \in [1..n -> Elems(P, d)], z \in BOOLEAN}
CInterpF(P, d) == UNION {CInterpN(P, d, n) : n \in 0..LInt}
\* two batches of N points: the second one is the first reversed and translated
Translate(P, e) == [t \in 1..Len(e) |-> IF t = 1 THEN (e[t] + 3) % P ELSE e[t]]
CInterpBN(P, d, n) == {[op |-> "interpb", P |-> P, d |-> d, N |-> n,
                        xs |-> << [i \in 1..n |-> Points(P, d)[s[i]]],
                                  [i \in 1..n |-> Translate(P, Points(P, d)[s[n + 1 - i]])] >>,
                        ys |-> << ys, [i \in 1..n |-> ys[n + 1 - i]] >>] :
                     s \in DistinctIdx(n, 5), ys \in [1..n -> Elems(P, d)]}
CInterpBF(P, d) == UNION {CInterpBN(P, d, n) : n \in 1..LInt}
                   \cup {[op |-> "interpb", P |-> P, d |-> d, N |-> n, xs |-> <<>>, ys |-> <<>>] : n \in 1..4}
CRootsF(P, d) == {[op |-> "roots", P |-> P, d |-> d, xs |-> r] : r \in Vecs(Elems(P, d), 0, LRoots)}
CDegF(P, d) == {[op |-> "deg", P |-> P, d |-> d, p |-> p] : p \in Vecs(Elems(P, d), 0, LDeg)}

\* ---- seeded random cases: full-range coefficients, longer vectors ----
RLen(s, lo, hi) == lo + (Rnd(s, 0) % (hi - lo + 1))
FieldNo(f) == f[1] + f[2]
RArith(f, j) == LET s == Stream(1 + FieldNo(f), j)  P == f[1]  d == f[2]
                IN [op |-> "arith", P |-> P, d |-> d, a |-> RPoly(P, d, s, RLen(s, 0, RandLen)),
                    b |-> RPoly(P, d, s + 1, RLen(s + 1, 1, RandLen))]
RScal(f, j) == LET s == Stream(2 + FieldNo(f), j)  P == f[1]  d == f[2]
               IN [op |-> "scalar", P |-> P, d |-> d, p |-> RPoly(P, d, s, RLen(s, 0, RandLen)), k |-> RElem(P, d, s + 1, 1)]
\* divisor of random length <= the dividend's, both with non-zero top coefficient; then leading-zero
\* padding on the dividend (j odd) — the divisor's degree stays <= the dividend's
RDiv(f, j) == LET s == Stream(3 + FieldNo(f), j)  P == f[1]  d == f[2]
                  la == RLen(s, 1, RandLen)
                  lb == 1 + (Rnd(s, 1) % la)
                  a == WithTop(P, RPoly(P, d, s, la))
                  b == WithTop(P, RPoly(P, d, s + 1, lb))
              IN [op |-> "div", P |-> P, d |-> d, a |-> IF j % 2 = 1 THEN ZPad(a, j % 3, d) ELSE a,
                  b |-> IF j % 4 = 3 THEN ZPad(b, 0, d) ELSE b]
\* exact division: the dividend is a product
RDivExact(f, j) == LET s == Stream(4 + FieldNo(f), j)  P == f[1]  d == f[2]
                       q == WithTop(P, RPoly(P, d, s, RLen(s, 1, RandLen \div 2)))
                       b == WithTop(P, RPoly(P, d, s + 1, RLen(s + 1, 1, RandLen \div 2)))
                   IN [op |-> "div", P |-> P, d |-> d, a |-> PMul(P, q, b, d), b |-> b]
RSyn(f, j) == LET s == Stream(5 + FieldNo(f), j)  P == f[1]  d == f[2]
                  a == 1 + (j % 4)
                  lp == RLen(s, a + 1, RandLen + 4)
              IN [op |-> "syn", P |-> P, d |-> d, p |-> RPoly(P, d, s, lp), a |-> a,
                  b |-> IF j % 5 = 0 THEN EOne(d) ELSE NonZero(P, RElem(P, d, s + 1, 1))]
RSynR(f, j) == LET s == Stream(6 + FieldNo(f), j)  P == f[1]  d == f[2]
                   lr == RLen(s, 1, RandLen \div 2)
                   lp == lr + 1 + (Rnd(s, 2) % RandLen)
                   r == RPoly(P, d, s + 1, lr)
               IN [op |-> "synroots", P |-> P, d |-> d, p |-> RPoly(P, d, s, lp),
                   \* repeat a root now and then
                   roots |-> IF j % 3 = 0 /\ lr > 1 THEN [i \in 1..lr |-> IF i = lr THEN r[1] ELSE r[i]] ELSE r]
\* distinct abscissae: first coordinates run over an arithmetic progression with non-zero step
RXs(P, d, s, n) == LET start == Rnd(s, 1) % P  step == 1 + (Rnd(s, 2) % (P - 1))
                   IN [i \in 1..n |-> [t \in 1..d |-> IF t = 1 THEN (start + ((i * step) % P)) % P ELSE Rnd(s, 7 * i + t) % P]]
RInterp(f, j) == LET s == Stream(7 + FieldNo(f), j)  P == f[1]  d == f[2]
                     n == RLen(s, 1, IF RandLen < P - 1 THEN RandLen ELSE P - 1)
                 IN [op |-> "interp", P |-> P, d |-> d, xs |-> RXs(P, d, s, n), ys |-> RPoly(P, d, s + 1, n), rlz |-> (j % 2 = 0)]
RInterpB(f, j) == LET s == Stream(8 + FieldNo(f), j)  P == f[1]  d == f[2]
                      n == IF j % 2 = 0 THEN 8 ELSE 4
                      nb == 1 + (j % 3)
                  IN [op |-> "interpb", P |-> P, d |-> d, N |-> n,
                      xs |-> [k \in 1..nb |-> RXs(P, d, s + k, n)], ys |-> [k \in 1..nb |-> RPoly(P, d, s + 10 + k, n)]]
RRoots(f, j) == LET s == Stream(9 + FieldNo(f), j)  P == f[1]  d == f[2]
                    r == RPoly(P, d, s, RLen(s, 0, RandLen))
                IN [op |-> "roots", P |-> P, d |-> d,
                    xs |-> IF j % 3 = 0 /\ Len(r) > 1 THEN [i \in 1..Len(r) |-> IF i = Len(r) THEN r[1] ELSE r[i]] ELSE r]
RDeg(f, j) == LET s == Stream(10 + FieldNo(f), j)  P == f[1]  d == f[2]
              IN [op |-> "deg", P |-> P, d |-> d, p |-> ZPad(RPoly(P, d, s, RLen(s, 0, RandLen)), j % 4, d)]
REval(f, j) == LET s == Stream(11 + FieldNo(f), j)  P == f[1]  d == f[2]
               IN [op |-> "evalr", P |-> P, db |-> IF j % 2 = 0 THEN 1 ELSE d, de |-> d,
                   p |-> RPoly(P, IF j % 2 = 0 THEN 1 ELSE d, s, RLen(s, 0, RandLen)),
                   xs |-> RPoly(P, d, s + 1, 1 + (j % 7))]

\* long polynomials (lengths around 32, 64, 128, odd and even, non-zero leading coefficient)
LongEvalLens == <<31, 32, 33, 63, 64, 65, 127, 129>>
REvalLong(f, j) == LET s == Stream(12 + FieldNo(f), j)  P == f[1]  d == f[2]
                       db == IF j % 2 = 0 THEN 1 ELSE d
                       n == LongEvalLens[j]
                       r == RPoly(P, db, s, n)
                       one == [i \in 1..db |-> IF i = 1 THEN 1 ELSE 0]
                   IN [op |-> "evalr", P |-> P, db |-> db, de |-> d,
                       p |-> [i \in 1..n |-> IF i = n /\ r[i] = [k \in 1..db |-> 0] THEN one ELSE r[i]],
                       xs |-> RPoly(P, d, s + 1, 3)]

Init ==
  /\ phase = 0
  /\ \/ case \in CEval
     \/ \E f \in FieldsR, j \in 1..Len(LongEvalLens) : case = REvalLong(f, j)
     \/ \E f \in Fields :
          \/ case \in CArithF(f[1], f[2])  \/ case \in CScalF(f[1], f[2])   \/ case \in CDivF(f[1], f[2])
          \/ case \in CSynF(f[1], f[2])    \/ case \in CSynRF(f[1], f[2])   \/ case \in CInterpF(f[1], f[2])
          \/ case \in CInterpBF(f[1], f[2]) \/ case \in CRootsF(f[1], f[2]) \/ case \in CDegF(f[1], f[2])
     \/ \E f \in FieldsR, j \in 1..NRand :
          \/ case = RArith(f, j)  \/ case = RScal(f, j)   \/ case = RDiv(f, j)    \/ case = RDivExact(f, j)
          \/ case = RSyn(f, j)    \/ case = RSynR(f, j)   \/ case = RInterp(f, j) \/ case = RInterpB(f, j)
          \/ case = RRoots(f, j)  \/ case = RDeg(f, j)    \/ case = REval(f, j)

Next == phase = 0 /\ phase' = 1 /\ UNCHANGED case
Spec == Init /\ [][Next]_vars

(***************************************************************************)
(* the case with its complete expected outputs                             *)
(***************************************************************************)
Scenario(c) ==
  CASE c.op = "eval" ->
         LET xs == EvalPoints(c.P, c.de)
             pl == [i \in 1..Len(c.p) |-> Lift(c.p[i], c.de)]
         IN [op |-> "eval", P |-> c.P, db |-> c.db, de |-> c.de, p |-> JP(c.p), xs |-> JP(xs),
             exp |-> JP([i \in 1..Len(xs) |-> PEval(c.P, pl, xs[i])])]
    [] c.op = "evalr" ->
         LET pl == [i \in 1..Len(c.p) |-> Lift(c.p[i], c.de)]
         IN [op |-> "eval", P |-> c.P, db |-> c.db, de |-> c.de, p |-> JP(c.p), xs |-> JP(c.xs),
             exp |-> JP([i \in 1..Len(c.xs) |-> PEval(c.P, pl, c.xs[i])])]
    [] c.op = "arith" ->
         [op |-> "arith", P |-> c.P, d |-> c.d, a |-> JP(c.a), b |-> JP(c.b),
          add |-> JP(PAdd(c.P, c.a, c.b, c.d)), sub |-> JP(PSub(c.P, c.a, c.b, c.d)),
          hasmul |-> (c.a # <<>> \/ c.b # <<>>),
          mul |-> IF c.a # <<>> \/ c.b # <<>> THEN JP(MulSpec(c.P, c.a, c.b, c.d)) ELSE <<>>]
    [] c.op = "scalar" ->
         [op |-> "scalar", P |-> c.P, d |-> c.d, p |-> JP(c.p), k |-> JE(c.k), exp |-> JP(PScale(c.P, c.p, c.k))]
    [] c.op = "div" ->
         [op |-> "div", P |-> c.P, d |-> c.d, a |-> JP(c.a), b |-> JP(c.b),
          exp |-> JP(Quot(c.P, c.a, c.b, c.d)),
          \* "exact": the documented length |a| - |b| + 1 applies; "poly": equal as polynomials
          mode |-> IF TopNonZero(c.a) /\ TopNonZero(c.b) THEN "exact" ELSE "poly"]
    [] c.op = "syn" ->
         [op |-> "syn", P |-> c.P, d |-> c.d, p |-> JP(c.p), a |-> c.a, b |-> JE(c.b),
          exp |-> JP(Pad(Quot(c.P, c.p, XaMinusB(c.P, c.a, c.b, c.d), c.d), Len(c.p), c.d))]
    [] c.op = "synroots" ->
         [op |-> "synroots", P |-> c.P, d |-> c.d, p |-> JP(c.p), roots |-> JP(c.roots),
          exp |-> JP(Pad(Quot(c.P, c.p, PFromRoots(c.P, c.roots, c.d), c.d), Len(c.p), c.d))]
    [] c.op = "interp" ->
         LET full == Interp(c.P, c.xs, c.ys, c.d)
         IN [op |-> "interp", P |-> c.P, d |-> c.d, xs |-> JP(c.xs), ys |-> JP(c.ys), rlz |-> c.rlz,
             exp |-> JP(IF c.rlz THEN PTrim(full) ELSE full)]
    [] c.op = "interpb" ->
         [op |-> "interpb", P |-> c.P, d |-> c.d, N |-> c.N, xs |-> JPP(c.xs), ys |-> JPP(c.ys),
          exp |-> JPP([k \in 1..Len(c.xs) |-> Interp(c.P, c.xs[k], c.ys[k], c.d)])]
    [] c.op = "roots" ->
         [op |-> "roots", P |-> c.P, d |-> c.d, xs |-> JP(c.xs), exp |-> JP(PFromRoots(c.P, c.xs, c.d))]
    [] c.op = "deg" ->
         [op |-> "deg", P |-> c.P, d |-> c.d, p |-> JP(c.p), deg |-> PDeg(c.p), trimmed |-> JP(PTrim(c.p))]

Emit == PrintT(<<"REPLAY", ToJson(Scenario(case))>>)
=============================================================================
