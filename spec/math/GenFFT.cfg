\* C12 quick tier: all families
SPECIFICATION Spec
CONSTANTS AllUnits257 = FALSE  Degs257 = {1, 2}  MaxBlow257 = 8  NRnd = 2
          BigSizes = {64, 128, 256, 512, 1024, 2048, 4096, 8192}  NSparse = 3  NDense = 3  KIdx = 10  FullUpTo = 256  NGrid = 1
          Fams = {"small97", "small257", "sparse", "dense", "grid", "pidx", "rows"}
ACTION_CONSTRAINT Emit
CHECK_DEADLOCK FALSE
