-------------------------------- MODULE Batch --------------------------------
(* C14 — batch field utilities (math/src/utils/mod.rs) and slice re-grouping (utils/core/src/lib.rs).

   ELEMENT-WISE DEFINITIONS over the toy fields of FieldP.tla (elements are coordinate tuples):
     batch_inversion(v)[i]                   = v[i]^-1 if v[i] # 0, else 0            (EInv)
     get_power_series(b, n)[i]               = b^i,        i = 0..n-1  (so n = 0 gives the empty vector)
     get_power_series_with_offset(b, s, n)[i] = s * b^i
     add_in_place(a, b): a[i]                := a[i] + b[i]
     mul_acc(a, b, c):   a[i]                := a[i] + b[i] * c        (b over a subfield F of E)
     group_slice_elements<N>(s)[i][j]        = s[i*N + j]              (|s| divisible by N)
     flatten_slice_elements / flatten_vector_elements: the inverse of grouping
     transpose_slice<N>(s)[i][j]             = s[i + j * (|s| / N)]    (|s| divisible by N)
   "for every length": lengths 0..MaxSmall one by one, and lengths around the points where the
   concurrent build starts splitting the work (batches of n / next_pow2(threads) elements once that
   is >= 1024): 1024*k - 1, 1024*k, 1024*k + 1, ... listed in BigLens, plus NRandLens seeded lengths.
   Zero patterns for batch_inversion: none, all, a single zero at EVERY position (small lengths),
   zeros at / around every batch boundary for every batch count 2, 4, 8, 16, zeros at the first or the
   last position of every batch, seeded random zeros.

   Every case is an initial state; the step 0 -> 1 lets the workers compute expectations in parallel;
   Emit prints the case with its complete expected output. *)
EXTENDS FieldP, Rand, TLC, Json, FiniteSets, SequencesExt

CONSTANTS
  MaxSmall,     \* lengths 0..MaxSmall are enumerated one by one
  BigLens,      \* set of lengths around the batching thresholds
  NRandLens,    \* additional seeded lengths in 1000..MaxRandLen
  MaxRandLen,
  ExtBigLens,   \* subset of big lengths also run over extension fields (expensive for TLC)
  Fams          \* subset of {"inv", "pow", "arith", "shape"}

VARIABLES case, phase
vars == <<case, phase>>

JE(e) == IF Len(e) = 1 THEN e[1] ELSE e
JP(p) == [i \in 1..Len(p) |-> JE(p[i])]

Z(d) == Mat(EZero(d), d)
One(d) == Mat(EOne(d), d)
\* strict materialised element-wise maps (see Rand!Mat)
Map1(f(_), v) == LET n == Len(v) IN Mat([i \in 1..n |-> f(v[i])], n)

(***************************************************************************)
(* the definitions                                                         *)
(***************************************************************************)
\* base-field inverses a^(P-2), tabulated once per TLC run (constant definitions are evaluated once);
\* index a + 1.  Extension-field inverses are FieldP!EInv.
InvTab257   == Mat([a \in 1..257 |-> FInv(257, a - 1)], 257)
InvTab40961 == Mat([a \in 1..40961 |-> FInv(40961, a - 1)], 40961)
InvOf(P, x) == IF Len(x) = 1 THEN <<(IF P = 257 THEN InvTab257 ELSE InvTab40961)[x[1] + 1]>> ELSE EInv(P, x)
InvSpec(P, v)            == Map1(LAMBDA x : InvOf(P, x), v)
\* successive powers by repeated multiplication: PS[i+1] = PS[i] * b, PS[1] = s
PowSeries(P, b, s, n)    == LET step(acc, i) == IF i = 1 THEN <<s>> ELSE Append(acc, EMul(P, acc[i - 1], b))
                            IN FoldLeft(step, <<>>, Mat([i \in 1..n |-> i], n))
AddSpec(P, a, b)         == LET n == Len(a) IN Mat([i \in 1..n |-> EAdd(P, a[i], b[i])], n)
LiftTo(e, d)             == IF Len(e) = d THEN e ELSE EFromBase(d, e[1])
MulAccSpec(P, a, b, c, d) == LET n == Len(a) IN Mat([i \in 1..n |-> EAdd(P, a[i], EMul(P, LiftTo(b[i], d), c))], n)
Group(s, N)              == LET r == Len(s) \div N IN [i \in 1..r |-> [j \in 1..N |-> s[(i - 1) * N + j]]]
Transpose(s, N)          == LET r == Len(s) \div N IN [i \in 1..r |-> [j \in 1..N |-> s[i + (j - 1) * r]]]

\* b^i by square-and-multiply, to cross-check PowSeries at one index per case
PowCheck(P, b, s, n, ps) == n = 0 \/ LET k == 1 + (Rnd(n, 3) % n)
                                     IN Assert(ps[k] = EMul(P, s, EPow(P, b, k - 1)), <<"PowSeries disagrees with EPow", P, b, s, k>>)
\* x * x^-1 = 1 for every non-zero x and 0 for 0: the defining equations, checked for EVERY element of
\* every expected vector (so the tabulation / pooling below cannot produce a wrong expectation)
InvCheck(P, v, inv) == \A k \in 1..Len(v) :
                         LET d == Len(v[k])
                         IN Assert(IF v[k] = Z(d) THEN inv[k] = Z(d) ELSE EMul(P, v[k], inv[k]) = One(d),
                                   <<"not an inverse", P, v[k], inv[k]>>)

(***************************************************************************)
(* inputs                                                                  *)
(***************************************************************************)
\* positions (1-based) at and around every batch boundary for the batch counts the code can use
Boundaries(n) == {p \in UNION {{i * (n \div k) + e : i \in 0..k, e \in {-1, 0, 1, 2}} : k \in {2, 4, 8, 16}} : p >= 1 /\ p <= n}
Firsts(n)     == {p \in UNION {{i * (n \div k) + 1 : i \in 0..k} : k \in {2, 4, 8, 16}} : p >= 1 /\ p <= n}
Lasts(n)      == {p \in UNION {{i * (n \div k) : i \in 0..k} : k \in {2, 4, 8, 16}} \cup {n} : p >= 1 /\ p <= n}

\* random non-zero vector with zeros forced at the positions of `zs`
NZ(P, e) == IF e = Z(Len(e)) THEN One(Len(e)) ELSE e
\* extension-field vectors draw their elements from a pool of PoolK seeded non-zero values per field,
\* whose (expensive) FieldP!EInv inverses TLC computes once per run (constant definitions)
PoolK == 127
MkPool(P, d) == Mat([k \in 1..PoolK |-> NZ(P, RElem(P, d, Seed + 7 * d + P, k))], PoolK)
Pool257x2 == MkPool(257, 2)
Pool257x3 == MkPool(257, 3)
Pool40961x2 == MkPool(40961, 2)
Pool40961x3 == MkPool(40961, 3)
PoolInv257x2 == Map1(LAMBDA x : EInv(257, x), Pool257x2)
PoolInv257x3 == Map1(LAMBDA x : EInv(257, x), Pool257x3)
PoolInv40961x2 == Map1(LAMBDA x : EInv(40961, x), Pool40961x2)
PoolInv40961x3 == Map1(LAMBDA x : EInv(40961, x), Pool40961x3)
PoolOf(P, d) == CASE P = 257 /\ d = 2 -> Pool257x2 [] P = 257 /\ d = 3 -> Pool257x3
                  [] P = 40961 /\ d = 2 -> Pool40961x2 [] P = 40961 /\ d = 3 -> Pool40961x3
PoolInvOf(P, d) == CASE P = 257 /\ d = 2 -> PoolInv257x2 [] P = 257 /\ d = 3 -> PoolInv257x3
                     [] P = 40961 /\ d = 2 -> PoolInv40961x2 [] P = 40961 /\ d = 3 -> PoolInv40961x3
ElemNo(s, i) == 1 + (Rnd(s + 3, i) % PoolK)
VecWithZeros(P, d, s, n, zs) ==
  IF d = 1 THEN Mat([i \in 1..n |-> IF i \in zs THEN Z(d) ELSE NZ(P, RElem(P, d, s, i))], n)
  ELSE LET pool == PoolOf(P, d) IN Mat([i \in 1..n |-> IF i \in zs THEN Z(d) ELSE pool[ElemNo(s, i)]], n)
\* the inverse-or-zero vector of v = VecWithZeros(P, d, s, n, _)
InvVec(P, d, s, n, v) ==
  IF d = 1 THEN InvSpec(P, v)
  ELSE LET pinv == PoolInvOf(P, d) IN Mat([i \in 1..n |-> IF v[i] = Z(d) THEN Z(d) ELSE pinv[ElemNo(s, i)]], n)
Pattern(P, d, s, n, pat) ==
  CASE pat[1] = "none"  -> VecWithZeros(P, d, s, n, {})
    [] pat[1] = "all"   -> VecWithZeros(P, d, s, n, 1..n)
    [] pat[1] = "one"   -> VecWithZeros(P, d, s, n, {pat[2]})
    [] pat[1] = "bnd"   -> VecWithZeros(P, d, s, n, Boundaries(n))
    [] pat[1] = "first" -> VecWithZeros(P, d, s, n, Firsts(n))
    [] pat[1] = "last"  -> VecWithZeros(P, d, s, n, Lasts(n))
    [] pat[1] = "rnd"   -> VecWithZeros(P, d, s, n, {i \in 1..n : Rnd(s + 7, i) % 8 = 0})
    [] pat[1] = "alt"   -> VecWithZeros(P, d, s, n, {i \in 1..n : i % 2 = pat[2]})

RandLens == {1000 + (Rnd(Stream(100, j), 1) % (MaxRandLen - 999)) : j \in 1..NRandLens}
Big == BigLens \cup RandLens
SmallFields == {<<257, 1>>, <<257, 2>>, <<40961, 1>>, <<40961, 3>>}
BigFields(n) == {<<40961, 1>>} \cup (IF n \in ExtBigLens THEN {<<257, 1>>, <<257, 3>>, <<40961, 2>>} ELSE {})

CInvSmall == UNION {{[op |-> "inv", P |-> f[1], d |-> f[2], n |-> n, pat |-> p] :
                        f \in SmallFields,
                        p \in {<<"none", 0>>, <<"all", 0>>, <<"alt", 0>>, <<"alt", 1>>} \cup {<<"one", k>> : k \in 1..n}} :
                     n \in 0..MaxSmall}
CInvBig == UNION {{[op |-> "inv", P |-> f[1], d |-> f[2], n |-> n, pat |-> p] :
                      f \in BigFields(n), p \in {<<"none", 0>>, <<"all", 0>>, <<"bnd", 0>>, <<"first", 0>>, <<"last", 0>>, <<"rnd", 0>>}} :
                   n \in Big}
\* bases: 0, 1, -1, the generator, a seeded one; offsets: 1, 0, a seeded one
CPow == UNION {{[op |-> "pow", P |-> f[1], d |-> f[2], n |-> n, bk |-> bk, sk |-> sk] :
                   f \in SmallFields, bk \in {"zero", "one", "minus1", "gen", "rnd"}, sk \in {"none", "one", "zero", "rnd"}} :
                n \in 0..MaxSmall}
        \cup UNION {{[op |-> "pow", P |-> f[1], d |-> f[2], n |-> n, bk |-> bk, sk |-> sk] :
                   f \in BigFields(n), bk \in {"gen", "rnd", "zero"}, sk \in {"none", "rnd"}} :
                n \in Big}
CArith == UNION {{[op |-> "arith", P |-> f[1], df |-> f[2], de |-> f[3], n |-> n] :
                    f \in {<<257, 1, 1>>, <<257, 1, 2>>, <<257, 2, 2>>, <<40961, 1, 1>>, <<40961, 1, 3>>, <<40961, 3, 3>>}} :
                  n \in 0..MaxSmall}
          \cup UNION {{[op |-> "arith", P |-> f[1], df |-> f[2], de |-> f[3], n |-> n] :
                    f \in {<<40961, 1, 1>>} \cup (IF n \in ExtBigLens THEN {<<257, 1, 1>>, <<257, 1, 2>>, <<40961, 1, 3>>, <<40961, 3, 3>>} ELSE {})} :
                  n \in Big}
\* shapes: r rows of N elements
CShape == {[op |-> "shape", N |-> N, r |-> r] : N \in {1, 2, 3, 4, 8, 16}, r \in 0..12}
          \cup {[op |-> "shape", N |-> N, r |-> r] : N \in {2, 4, 8}, r \in {1023, 1024, 1025, 2047, 2048, 2049, 3000, 4096, 4097, 5000}}

Init == /\ phase = 0
        /\ \/ "inv" \in Fams /\ (case \in CInvSmall \/ case \in CInvBig)
           \/ "pow" \in Fams /\ case \in CPow
           \/ "arith" \in Fams /\ case \in CArith
           \/ "shape" \in Fams /\ case \in CShape
Next == phase = 0 /\ phase' = 1 /\ UNCHANGED case
Spec == Init /\ [][Next]_vars

(***************************************************************************)
(* scenarios                                                               *)
(***************************************************************************)
Base(P, d, s, kind) ==
  CASE kind = "zero"   -> Z(d)
    [] kind = "one"    -> One(d)
    [] kind = "minus1" -> Mat(EFromBase(d, P - 1), d)
    [] kind = "gen"    -> IF d = 1 THEN <<Gen(P)>> ELSE Mat([t \in 1..d |-> IF t = 2 THEN 1 ELSE 0], d)   \* x itself in the extensions
    [] kind = "rnd"    -> RElem(P, d, s, 1)

Scenario(c) ==
  CASE c.op = "inv" ->
         LET s == Stream(110 + c.d, c.n)
             v == Pattern(c.P, c.d, s, c.n, c.pat)
             inv == InvVec(c.P, c.d, s, c.n, v)
         IN IF InvCheck(c.P, v, inv)
              THEN [op |-> "inv", P |-> c.P, d |-> c.d, pat |-> c.pat[1], v |-> JP(v), exp |-> JP(inv)]
              ELSE [op |-> "error"]
    [] c.op = "pow" ->
         LET s == Stream(120 + c.d, c.n)
             b == Base(c.P, c.d, s, c.bk)
             off == IF c.sk = "none" THEN One(c.d) ELSE Base(c.P, c.d, s + 1, c.sk)
             ps == PowSeries(c.P, b, off, c.n)
         IN IF PowCheck(c.P, b, off, c.n, ps)
              THEN [op |-> IF c.sk = "none" THEN "pow" ELSE "powo", P |-> c.P, d |-> c.d, n |-> c.n,
                    b |-> JE(b), s |-> JE(off), exp |-> JP(ps)]
              ELSE [op |-> "error"]
    [] c.op = "arith" ->
         LET s == Stream(130 + c.de, c.n)
             a == RPoly(c.P, c.de, s, c.n)
             b2 == RPoly(c.P, c.de, s + 1, c.n)
             bf == RPoly(c.P, c.df, s + 2, c.n)
             k == RElem(c.P, c.de, s + 3, 1)
         IN [op |-> "arith", P |-> c.P, df |-> c.df, de |-> c.de, a |-> JP(a), b |-> JP(b2), bf |-> JP(bf), c |-> JE(k),
             add |-> JP(AddSpec(c.P, a, b2)), mulacc |-> JP(MulAccSpec(c.P, a, bf, k, c.de))]
    [] c.op = "shape" ->
         LET n == c.N * c.r
             src == Mat([i \in 1..n |-> (i * 3 + Seed) % 1000003], n)     \* pairwise distinct values
         \* `spare`: the owned vector handed to flatten_vector_elements is also built with this much unused
         \* capacity — the result is a function of the element sequence alone
         IN [op |-> "shape", N |-> c.N, src |-> src, grouped |-> Group(src, c.N), transposed |-> Transpose(src, c.N),
             spare |-> 1 + ((c.r + c.N) % 5)]

Emit == PrintT(<<"REPLAY", ToJson(Scenario(case))>>)
=============================================================================
