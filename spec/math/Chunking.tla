------------------------------- MODULE Chunking -------------------------------
(* Design-level model of the work partitioning used by the concurrent build
   (utils/core/src/iterators.rs `batch_iter_mut!`, math/src/utils/mod.rs, math/src/fft/concurrent.rs):

     batch_size = n / next_power_of_two(threads)
     batch_size < MinBatch  ->  one call  f(whole slice, offset 0)
     otherwise              ->  par_chunks_mut(batch_size): chunk i = cells [i*bs, min((i+1)*bs, n)),
                                called as f(chunk, i * bs), all chunks possibly in parallel

   One TLA+ process per chunk; a step is one loop iteration of the closure (one cell written);
   TLC explores EVERY interleaving of the processes.  Three closures are modelled, over F_97:
     "pow"  get_power_series(_with_offset) / clone_and_shift / interpolate_poly_with_offset:
            the batch restarts its running factor at b^offset and multiplies on
     "inv"  batch_inversion: serial_batch_inversion on values[offset .. offset+len) -> result chunk
            (forward prefix products skipping zeros, one inversion, backward pass)
     "perm" fft::concurrent::permute: batch j handles indices [j*bs, (j+1)*bs) and swaps cell i with
            cell rev(i) when rev(i) > i — cells OUTSIDE its own index range
   Checked: the chunks partition the slice; no step reads or writes a cell that another process
   touches (`race`), no step leaves the slice (`oob`); when all processes are done the array equals
   the sequential, element-wise definition — for every interleaving, every n <= MaxN, every thread
   count 1..16.

   GuardEmpty = FALSE models fill_power_series as found (writes result[0] before looking at the
   length): with n = 0 the single batch is empty and the write is out of bounds — the model
   reproduces the get_power_series(b, 0) panic.  GuardEmpty = TRUE is the repaired closure.

   PermRule: the slice length of permute is a power of two, so rounding the batch count UP TO A POWER OF
   TWO is exactly what makes n / batches * batches = n; with PermRule = "threads" (batch count = thread
   count) a tail of n mod threads indices is handled by no batch: `Partition` fails (e.g. n = 4, 3
   threads) and, when the tail holds an index i with rev(i) > i, `Final` fails (n = 16, 11 threads:
   batches of 1 cover 0..10, index 11 <-> 13 is never swapped) — MCChunking_permfound_*.cfg.

   MinBatch is 1024 in the code; the model scales it down (the partition arithmetic is the same). *)
EXTENDS FieldP, TLC, FiniteSets

CONSTANTS MaxN, MinBatches, Ops, GuardEmpty, MaxStates,
          Threads,      \* thread counts explored (1..16 in the gate configurations)
          PermRule      \* batch count of concurrent::permute: "pow2" = next_power_of_two(threads) (the code),
                        \*                                       "threads" = the thread count itself (not rounded)

P == 97
B == 5                       \* base of the power series
VARIABLES cfg,               \* [op, n, t, min]
          out,               \* the array being filled, cells 0..n-1 stored at index +1; -1 = not yet written
          pc, acc,           \* per chunk: steps done, running `last` / `factor`
          oob, race          \* a step left the slice / touched a cell of another process

vars == <<cfg, out, pc, acc, oob, race>>

NextPow2(t) == CHOOSE k \in {1, 2, 4, 8, 16} : k >= t /\ k \div 2 < t
CeilDiv(a, b) == (a + b - 1) \div b
Min2(a, b) == IF a < b THEN a ELSE b
Log2(n) == CHOOSE k \in 0..6 : 2 ^ k = n
RECURSIVE BitRev(_, _)
BitRev(k, i) == IF k = 0 THEN 0 ELSE (i % 2) * (2 ^ (k - 1)) + BitRev(k - 1, i \div 2)

PermBatches(t) == IF PermRule = "pow2" THEN NextPow2(t) ELSE t
\* the chunks of a run: sequence of [lo, hi) index ranges
Chunks(c) ==
  LET bs == c.n \div NextPow2(c.t) IN
  IF c.op = "perm"
    THEN \* concurrent::permute makes PermBatches(threads) hand-rolled batches of n / batches indices each
         \* and nothing else: indices beyond batches * (n / batches) are handled by nobody
         LET k == PermBatches(c.t)  pbs == c.n \div k
         IN [j \in 1..k |-> [lo |-> (j - 1) * pbs, hi |-> j * pbs]]
    ELSE IF bs < c.min THEN << [lo |-> 0, hi |-> c.n] >>
         ELSE [j \in 1..CeilDiv(c.n, bs) |-> [lo |-> (j - 1) * bs, hi |-> Min2(j * bs, c.n)]]

\* inputs of "inv": zeros at multiples of 5 and at n-1 (so zeros sit on chunk boundaries for many n)
Val(i, n) == IF i % 5 = 0 \/ i = n - 1 THEN 0 ELSE ((i * 7 + 3) % (P - 1)) + 1

\* the element-wise / sequential definition of the final array
Expected(c) ==
  CASE c.op = "pow"  -> [i \in 1..c.n |-> FPow(P, B, i - 1)]
    [] c.op = "inv"  -> [i \in 1..c.n |-> FInv(P, Val(i - 1, c.n))]
    [] c.op = "perm" -> [i \in 1..c.n |-> BitRev(Log2(c.n), i - 1)]      \* identity array permuted

Steps(c, ch) ==
  LET len == ch.hi - ch.lo IN
  CASE c.op = "pow"  -> IF len = 0 /\ GuardEmpty THEN 0 ELSE IF len = 0 THEN 1 ELSE len
    [] c.op = "inv"  -> 2 * len + 1
    [] c.op = "perm" -> len

Init ==
  /\ cfg \in {c \in [op : Ops, n : 0..MaxN, t : Threads, min : MinBatches] :
                /\ (c.op = "perm" => c.n \in {2, 4, 8, 16, 32, 64} /\ c.n >= PermBatches(c.t) /\ c.min = CHOOSE m \in MinBatches : TRUE)
                \* keep the interleaving space of one configuration explorable
                /\ LET chs == Chunks(c)
                       RECURSIVE Prod(_)
                       Prod(j) == IF j > Len(chs) THEN 1
                                  ELSE LET r == Prod(j + 1) IN IF r > MaxStates THEN r ELSE r * (Steps(c, chs[j]) + 1)
                   IN Prod(1) <= MaxStates}
  /\ out = IF cfg.op = "perm" THEN [i \in 1..cfg.n |-> i - 1] ELSE [i \in 1..cfg.n |-> -1]
  /\ pc = [j \in 1..Len(Chunks(cfg)) |-> 0]
  /\ acc = [j \in 1..Len(Chunks(cfg)) |-> 1]
  /\ oob = FALSE
  /\ race = FALSE

InSlice(i) == i >= 0 /\ i < cfg.n
Own(ch, i) == i >= ch.lo /\ i < ch.hi

\* one loop iteration of chunk j
PowStep(j, ch) ==
  LET k == pc[j]  i == ch.lo + k IN
  /\ pc' = [pc EXCEPT ![j] = k + 1]
  /\ UNCHANGED <<cfg, race>>
  /\ IF ~InSlice(i) \/ ~Own(ch, i)
       THEN oob' = TRUE /\ UNCHANGED <<out, acc>>           \* result[0] of an empty batch
       ELSE /\ oob' = oob
            /\ IF k = 0 THEN /\ out' = [out EXCEPT ![i + 1] = FPow(P, B, ch.lo)]      \* start = b^offset
                             /\ acc' = acc
                        ELSE /\ out' = [out EXCEPT ![i + 1] = FMul(P, out[i], B)]      \* result[i-1] * b
                             /\ acc' = acc

InvStep(j, ch) ==
  LET k == pc[j]  len == ch.hi - ch.lo IN
  /\ pc' = [pc EXCEPT ![j] = k + 1]
  /\ UNCHANGED <<cfg, race, oob>>
  /\ IF k < len THEN                                   \* forward pass
          LET i == ch.lo + k  v == Val(i, cfg.n) IN
          /\ out' = [out EXCEPT ![i + 1] = acc[j]]
          /\ acc' = [acc EXCEPT ![j] = IF v # 0 THEN FMul(P, acc[j], v) ELSE acc[j]]
     ELSE IF k = len THEN                              \* last = last.inv()
          /\ acc' = [acc EXCEPT ![j] = FInv(P, acc[j])]
          /\ out' = out
     ELSE LET i == ch.hi - 1 - (k - len - 1)  v == Val(i, cfg.n) IN     \* backward pass
          IF v = 0 THEN out' = [out EXCEPT ![i + 1] = 0] /\ acc' = acc
          ELSE /\ out' = [out EXCEPT ![i + 1] = FMul(P, out[i + 1], acc[j])]
               /\ acc' = [acc EXCEPT ![j] = FMul(P, acc[j], v)]

\* cells a permutation batch touches while handling index i
PermCells(i) == LET r == BitRev(Log2(cfg.n), i) IN IF r > i THEN {i, r} ELSE {}
AllPermCells(ch) == UNION {PermCells(i) : i \in ch.lo..(ch.hi - 1)}
PermStep(j, ch) ==
  LET i == ch.lo + pc[j]  r == BitRev(Log2(cfg.n), i)  chs == Chunks(cfg) IN
  /\ pc' = [pc EXCEPT ![j] = pc[j] + 1]
  /\ UNCHANGED <<cfg, acc, oob>>
  /\ race' = (race \/ \E j2 \in 1..Len(chs) : j2 # j /\ PermCells(i) \cap AllPermCells(chs[j2]) # {})
  /\ out' = IF r > i THEN [out EXCEPT ![i + 1] = out[r + 1], ![r + 1] = out[i + 1]] ELSE out

Step(j) ==
  LET ch == Chunks(cfg)[j] IN
  /\ pc[j] < Steps(cfg, ch)
  /\ CASE cfg.op = "pow" -> PowStep(j, ch)
       [] cfg.op = "inv" -> InvStep(j, ch)
       [] cfg.op = "perm" -> PermStep(j, ch)

Next == \E j \in 1..Len(Chunks(cfg)) : Step(j)
Spec == Init /\ [][Next]_vars

(***************************************************************************)
(* properties                                                              *)
(***************************************************************************)
Done == \A j \in 1..Len(Chunks(cfg)) : pc[j] = Steps(cfg, Chunks(cfg)[j])

\* the chunks are consecutive, non-overlapping and cover 0..n-1; only the last one may be shorter
Partition ==
  LET chs == Chunks(cfg) IN
  /\ chs[1].lo = 0 /\ chs[Len(chs)].hi = cfg.n
  /\ \A j \in 1..(Len(chs) - 1) : chs[j].hi = chs[j + 1].lo /\ chs[j].lo < chs[j].hi
  /\ \A j \in 1..Len(chs) : chs[j].lo <= chs[j].hi

NoRace == ~race
InBounds == ~oob
\* schedule independence: whatever the interleaving, the finished array is the sequential one
Final == Done => out = Expected(cfg)
=============================================================================
