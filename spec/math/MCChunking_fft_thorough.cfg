\* design level, thorough: n <= 40, MinBatch scaled to 8, 4 and 1; fft::concurrent::permute and the clone_and_shift / shift-by-series batches (C12)
SPECIFICATION Spec
CONSTANTS MaxN = 40  MinBatches = {1, 4, 8}  Ops = {"perm", "pow"}  GuardEmpty = TRUE  MaxStates = 40000
CONSTANTS Threads = {1, 2, 3, 4, 5, 6, 7, 8, 9, 10, 11, 12, 13, 14, 15, 16}  PermRule = "pow2"
INVARIANT Partition NoRace InBounds Final
CHECK_DEADLOCK FALSE
