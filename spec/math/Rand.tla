-------------------------------- MODULE Rand --------------------------------
(* Seeded pseudo-random field elements for the generator specifications of the math group.
   The seed comes from the environment variable SEED (set by the check from VERIF_SEED), so every
   scenario is a deterministic function of the seed.  32-bit safe: every product is below
   46337^2 < 2^31.  Quality requirements are modest: the values only have to be "generic"
   (full-range, no structure the code under test could exploit). *)
EXTENDS Integers, Sequences, IOUtils

Seed == IF "SEED" \in DOMAIN IOEnv THEN atoi(IOEnv.SEED) ELSE 1

RM == 46337
Rnd(s, i) ==
  LET a == ((((s % 40009) * 7919) % RM) + (((i % 20011) * 10007) % RM) + 12345) % RM
      b == (a * a) % RM
      c == (((b + i) % RM) * ((a + 7) % RM)) % RM
  IN (((c * c) % RM) + b) % RM
\* stream number for family k, case j
Stream(k, j) == (Seed * 131 + k * 1009 + j * 17) % 40009
\* element of the degree-d extension of F_P (a d-tuple), polynomial / vector of n such elements
\* (explicit tuples and SubSeq make TLC build the values once instead of keeping lazy functions that
\*  would recompute Rnd at every application)
RElem(P, d, s, i) == CASE d = 1 -> <<Rnd(s, i * 3 + 1) % P>>
                       [] d = 2 -> <<Rnd(s, i * 3 + 1) % P, Rnd(s, i * 3 + 2) % P>>
                       [] d = 3 -> <<Rnd(s, i * 3 + 1) % P, Rnd(s, i * 3 + 2) % P, Rnd(s, i * 3 + 3) % P>>
Mat(f, n) == SubSeq(f, 1, n)
RPoly(P, d, s, n) == Mat([i \in 1..n |-> RElem(P, d, s, i)], n)
\* integer in lo..hi
RInt(s, i, lo, hi) == lo + (Rnd(s, i) % (hi - lo + 1))
=============================================================================
