\* concurrent::permute with the batch count NOT rounded up to a power of two (PermRule = "threads"):
\* TLC is EXPECTED to report Partition violated — the batches skip the last n mod threads indices
\* (first counterexample: n = 4, 3 threads: index 3 belongs to no batch).  Not a gate.
SPECIFICATION Spec
CONSTANTS MaxN = 64  MinBatches = {4}  Ops = {"perm"}  GuardEmpty = TRUE  MaxStates = 200000
CONSTANTS Threads = {1, 2, 3, 4, 5, 6, 7, 8, 9, 10, 11, 12, 13, 14, 15, 16}  PermRule = "threads"
INVARIANT Partition
CHECK_DEADLOCK FALSE
