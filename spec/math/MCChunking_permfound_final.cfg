\* concurrent::permute with PermRule = "threads", 11 threads: TLC is EXPECTED to report Final violated
\* for n = 16 — batches of 1 cover indices 0..10, the skipped tail 11..15 holds index 11 whose mirror
\* 13 is larger, so that swap never happens and the finished array is not the bit-reversal
\* permutation, whatever the interleaving.  Not a gate.
SPECIFICATION Spec
CONSTANTS MaxN = 32  MinBatches = {4}  Ops = {"perm"}  GuardEmpty = TRUE  MaxStates = 200000
CONSTANTS Threads = {11}  PermRule = "threads"
INVARIANT Final
CHECK_DEADLOCK FALSE
