\* C26 thorough: as quick, plus corruptions followed by trailing bytes, every two-byte string, long vectors
\* (3-byte length prefixes).
SPECIFICATION Spec
CONSTANTS CorruptWithTrailer = TRUE  AllPairs = TRUE
  LongLens <- LongThorough
INVARIANT Laws Emit
CHECK_DEADLOCK FALSE
