\* C26 thorough: as quick, plus corruptions followed by trailing bytes, every two-byte string, longer
\* vec<u8> / strings (129, 300, 1000 elements; recursive operators over sequences are quadratic in TLC).
SPECIFICATION Spec
CONSTANTS CorruptWithTrailer = TRUE  AllPairs = TRUE
  LongLens <- LongThorough
INVARIANT Laws Emit
CHECK_DEADLOCK FALSE
