\* One scenario per distinct transition of the code-shaped state graph (ACTION_CONSTRAINT prints it).
SPECIFICATION Spec
CONSTANTS MaxLen = 6  MinLen = 0  MaxOps = 3  Cap = 256  CompactAt = 16  Fixed = TRUE
  Kinds <- KindsTwo  Patterns <- PatsSmall  Ns <- NsSmall
VIEW view
ACTION_CONSTRAINT Emit
CHECK_DEADLOCK FALSE
