\* Long behaviours over big contents (crossing the 256-byte BufReader capacity and the compaction
\* threshold), one scenario per behaviour; run with -simulate.
SPECIFICATION Spec
CONSTANTS MaxLen = 700  MinLen = 200  MaxOps = 40  Cap = 256  CompactAt = 16  Fixed = TRUE
  Kinds <- KindsAll  Patterns <- PatsBig  Ns <- NsBig
INVARIANT Refines Conserves EmitAtEnd
CHECK_DEADLOCK FALSE
