-------------------------------- MODULE Codec --------------------------------
(* C26 — the typed encodings of winterfell's serialization layer (utils/core/src/serde/mod.rs):
   what `write_into` produces for a value of a type and what `read_from` returns for ANY byte string.

   Types are descriptors (tuples headed by a tag):
     <<"unit">> <<"u8">> <<"u16">> <<"u32">> <<"u64">> <<"u128">> <<"bool">> <<"usize">> <<"string">>
     <<"opt", T>>  <<"arr", N, T>>  <<"vec", T>>  <<"set", T>>  <<"map", K, V>>  <<"tuple", <<T1, ..., Tn>>>>
   Values:
     integers      little-endian byte sequences of the type's width (usize: 8 bytes; TLC ints are 32-bit)
     bool          TRUE / FALSE          unit   <<>>
     string        the sequence of its UTF-8 bytes
     opt           <<>> (None) or <<v>> (Some)
     arr/vec/tuple the sequence of the components
     set           the strictly increasing sequence of its elements (Rust's Ord of the element type)
     map           the sequence of <<key, value>> pairs, strictly increasing in the key

   Documented formats: integers little-endian fixed width; bool one byte 0/1; usize vint64 (Vint.tla);
   Option = bool tag + payload; [T;N] = the N elements; Vec/BTreeSet/BTreeMap/String = usize length +
   elements (map entries are key then value; a string's elements are its UTF-8 bytes); tuples = the
   components in order.  Decoding fails with end-of-input when bytes are missing and with
   invalid-value for a bool byte other than 0/1 and for a string that is not UTF-8.

   This module is purely definitional; MCCodec.tla holds the generator. *)
EXTENDS Integers, Sequences, TLC, Bytes, BigNat, Vint

CONSTANT LongLens          \* sequence of extra (long) lengths used for vec<u8> / string representatives
ZstMax == 1024             \* largest element count replayed for collections of zero-sized elements

IsIntTag(tag) == tag \in {"u8", "u16", "u32", "u64", "u128"}
IntWidth(tag) == CASE tag = "u8" -> 1 [] tag = "u16" -> 2 [] tag = "u32" -> 4 [] tag = "u64" -> 8 [] tag = "u128" -> 16
USZ(n) == LE(n, 8)                                   \* a size value from a TLC integer
PairTy(k, v) == <<"tuple", <<k, v>>>>

\* type of the i-th component of a composite value seen as a sequence
ElemTy(ty, i) == CASE ty[1] = "tuple" -> ty[2][i]
                   [] ty[1] = "arr"   -> ty[3]
                   [] ty[1] = "map"   -> PairTy(ty[2], ty[3])
                   [] OTHER           -> ty[2]            \* opt, vec, set

RECURSIVE MinSize(_)
MinSize(ty) ==
  LET tag == ty[1] IN
  CASE IsIntTag(tag)  -> IntWidth(tag)
    [] tag = "unit"   -> 0
    [] tag = "arr"    -> ty[2] * MinSize(ty[3])
    [] tag = "tuple"  -> LET RECURSIVE S(_)
                             S(i) == IF i > Len(ty[2]) THEN 0 ELSE MinSize(ty[2][i]) + S(i + 1)
                         IN S(1)
    [] OTHER          -> 1                                \* bool, usize, string, opt, vec, set, map

(***************************************************************************)
(* UTF-8: the standard DFA (Unicode 15, table 3-7)                         *)
(***************************************************************************)
Cont(b) == b >= 128 /\ b <= 191
Utf8Step(s, b) ==
  CASE s = "acc" -> IF b <= 127 THEN "acc"
                    ELSE IF b >= 194 /\ b <= 223 THEN "c1"
                    ELSE IF b = 224 THEN "e0"
                    ELSE IF (b >= 225 /\ b <= 236) \/ b = 238 \/ b = 239 THEN "c2"
                    ELSE IF b = 237 THEN "ed"
                    ELSE IF b = 240 THEN "f0"
                    ELSE IF b >= 241 /\ b <= 243 THEN "c3"
                    ELSE IF b = 244 THEN "f4"
                    ELSE "rej"
    [] s = "c1"  -> IF Cont(b) THEN "acc" ELSE "rej"
    [] s = "c2"  -> IF Cont(b) THEN "c1" ELSE "rej"
    [] s = "c3"  -> IF Cont(b) THEN "c2" ELSE "rej"
    [] s = "e0"  -> IF b >= 160 /\ b <= 191 THEN "c1" ELSE "rej"
    [] s = "ed"  -> IF b >= 128 /\ b <= 159 THEN "c1" ELSE "rej"
    [] s = "f0"  -> IF b >= 144 /\ b <= 191 THEN "c2" ELSE "rej"
    [] s = "f4"  -> IF b >= 128 /\ b <= 143 THEN "c2" ELSE "rej"
    [] OTHER     -> "rej"
RECURSIVE Utf8Run(_, _, _)
Utf8Run(bs, i, s) == IF i > Len(bs) THEN s ELSE Utf8Run(bs, i + 1, Utf8Step(s, bs[i]))
ValidUtf8(bs) == Utf8Run(bs, 1, "acc") = "acc"

(* The definition of UTF-8 itself, independent of the DFA: a concatenation of shortest-form encodings
   of scalar values (0..10FFFF without the surrogates D800..DFFF).  Design-level cross-check only. *)
RECURSIVE Utf8Den(_, _)
Utf8Den(bs, i) ==
  IF i > Len(bs) THEN TRUE
  ELSE LET b == bs[i]
           n == IF b <= 127 THEN 1 ELSE IF b >= 192 /\ b <= 223 THEN 2 ELSE IF b >= 224 /\ b <= 239 THEN 3
                ELSE IF b >= 240 /\ b <= 247 THEN 4 ELSE 0
       IN IF n = 0 \/ i + n - 1 > Len(bs) THEN FALSE
          ELSE IF \E j \in (i + 1)..(i + n - 1) : ~Cont(bs[j]) THEN FALSE
          ELSE LET lead == CASE n = 1 -> b [] n = 2 -> b - 192 [] n = 3 -> b - 224 [] n = 4 -> b - 240
                   RECURSIVE CP(_, _)
                   CP(j, acc) == IF j > i + n - 1 THEN acc ELSE CP(j + 1, acc * 64 + (bs[j] - 128))
                   cp == CP(i + 1, lead)
                   lo == CASE n = 1 -> 0 [] n = 2 -> 128 [] n = 3 -> 2048 [] n = 4 -> 65536
               IN /\ cp >= lo
                  /\ cp <= 1114111
                  /\ ~(cp >= 55296 /\ cp <= 57343)
                  /\ Utf8Den(bs, i + n)

(***************************************************************************)
(* Rust's Ord on values (needed for BTreeSet / BTreeMap)                   *)
(***************************************************************************)
RECURSIVE Less(_, _, _), LexLess(_, _, _, _)
Less(ty, a, b) ==
  LET tag == ty[1] IN
  CASE IsIntTag(tag) \/ tag = "usize" -> BLess(a, b)
    [] tag = "bool"  -> (~a) /\ b
    [] tag = "unit"  -> FALSE
    [] OTHER         -> LexLess(ty, a, b, 1)     \* string, opt (None < Some), arr, vec, set, map, tuple
\* lexicographic; a proper prefix is smaller
LexLess(ty, a, b, i) ==
  IF i > Len(a) THEN i <= Len(b)
  ELSE IF i > Len(b) THEN FALSE
  ELSE LET lt == IF ty[1] = "string" THEN a[i] < b[i] ELSE Less(ElemTy(ty, i), a[i], b[i])
           gt == IF ty[1] = "string" THEN b[i] < a[i] ELSE Less(ElemTy(ty, i), b[i], a[i])
       IN IF lt THEN TRUE ELSE IF gt THEN FALSE ELSE LexLess(ty, a, b, i + 1)

Same(ty, a, b) == ~Less(ty, a, b) /\ ~Less(ty, b, a)

RECURSIVE InsertSet(_, _, _)
InsertSet(ety, s, x) ==
  IF Len(s) = 0 THEN <<x>>
  ELSE IF Less(ety, x, s[1]) THEN <<x>> \o s
  ELSE IF Less(ety, s[1], x) THEN <<s[1]>> \o InsertSet(ety, Tail(s), x)
  ELSE s
\* BTreeMap::insert: a later entry replaces an earlier one with the same key
RECURSIVE InsertMap(_, _, _)
InsertMap(kty, s, e) ==
  IF Len(s) = 0 THEN <<e>>
  ELSE IF Less(kty, e[1], s[1][1]) THEN <<e>> \o s
  ELSE IF Less(kty, s[1][1], e[1]) THEN <<s[1]>> \o InsertMap(kty, Tail(s), e)
  ELSE <<e>> \o Tail(s)
\* the same key is already present with a different value: which one survives is not documented
Conflicts(kty, s, e) == \E i \in 1..Len(s) : Same(kty, s[i][1], e[1]) /\ s[i][2] # e[2]

RECURSIVE FoldSet(_, _, _, _), FoldMap(_, _, _, _)
FoldSet(ety, xs, i, acc) == IF i > Len(xs) THEN acc ELSE FoldSet(ety, xs, i + 1, InsertSet(ety, acc, xs[i]))
FoldMap(kty, es, i, acc) == IF i > Len(es) THEN acc ELSE FoldMap(kty, es, i + 1, InsertMap(kty, acc, es[i]))
RECURSIVE AnyConflict(_, _, _, _)
AnyConflict(kty, es, i, acc) ==
  IF i > Len(es) THEN FALSE
  ELSE Conflicts(kty, acc, es[i]) \/ AnyConflict(kty, es, i + 1, InsertMap(kty, acc, es[i]))
MkSet(ety, xs) == FoldSet(ety, xs, 1, <<>>)
MkMap(kty, es) == FoldMap(kty, es, 1, <<>>)

(***************************************************************************)
(* Encoding                                                                *)
(***************************************************************************)
RECURSIVE Encode(_, _)
EncodeAll(ty, v) ==        \* the components of a composite value, in order
  IF ty[1] \in {"vec", "arr", "set"} /\ ElemTy(ty, 1)[1] = "u8"
    THEN [i \in 1..Len(v) |-> v[i][1]]                       \* (shortcut: a byte per element)
    ELSE Concat([i \in 1..Len(v) |-> Encode(ElemTy(ty, i), v[i])])
Encode(ty, v) ==
  LET tag == ty[1] IN
  CASE IsIntTag(tag)    -> v
    [] tag = "unit"     -> <<>>
    [] tag = "bool"     -> IF v THEN <<1>> ELSE <<0>>
    [] tag = "usize"    -> VEncode(v)
    [] tag = "string"   -> VEncode(USZ(Len(v))) \o v
    [] tag = "opt"      -> IF Len(v) = 0 THEN <<0>> ELSE <<1>> \o Encode(ty[2], v[1])
    [] tag \in {"arr", "tuple"}       -> EncodeAll(ty, v)
    [] tag \in {"vec", "set", "map"}  -> VEncode(USZ(Len(v))) \o EncodeAll(ty, v)

(***************************************************************************)
(* Decoding of an arbitrary byte string from position p (0-based)          *)
(* result: t = "ok" (value v, new position p) | "eof" | "invalid";         *)
(* fl: facts about the input met on the way                                *)
(*   "short": a length prefix announces more elements than the remaining   *)
(*            input can hold;  "big": a length prefix >= 2^20;             *)
(*   "dup":   a map input repeats a key with different values              *)
(*   "zst-huge": more than ZstMax elements of a zero-sized type announced  *)
(* strict = FALSE skips the validity checks of bool bytes and UTF-8 (used  *)
(* only to find out whether an invalid input is ALSO too short)            *)
(***************************************************************************)
DOk(v, p, fl) == [t |-> "ok", v |-> v, p |-> p, fl |-> fl]
DErr(k, fl)   == [t |-> k, v |-> <<>>, p |-> 0, fl |-> fl]

LenFlags(nv, ms, r) ==
  (IF BLeq(BPow2(20), nv) THEN {"big"} ELSE {})
  \cup (IF ms > 0 /\ BLess(BN(r \div ms), nv) THEN {"short"} ELSE {})

\* every size value fits a 64-bit platform's usize; on a 32-bit platform values >= 2^32 are invalid
FitsPlatform(v) == TRUE

DecLen(bs, p) == LET d == VDecode(SubSeq(bs, p + 1, Min2(Len(bs), p + 9))) IN
                 IF d.t = "ok" THEN [t |-> "ok", v |-> d.v, p |-> p + d.n] ELSE [t |-> "eof", v |-> <<>>, p |-> p]

RECURSIVE Dec(_, _, _, _), DecMany(_, _, _, _, _, _, _, _)
\* cnt components (cnt < 0: more than any input can hold) of types ElemTy(ty, i), starting with i
DecMany(ty, i, cnt, bs, p, strict, acc, fl) ==
  IF cnt = 0 THEN DOk(acc, p, fl)
  ELSE LET d == Dec(ElemTy(ty, i), bs, p, strict) IN
       IF d.t # "ok" THEN DErr(d.t, fl \cup d.fl)
       ELSE DecMany(ty, i + 1, IF cnt > 0 THEN cnt - 1 ELSE cnt, bs, d.p, strict, Append(acc, d.v), fl \cup d.fl)

\* a length-prefixed collection: the element list as decoded, before set/map normalisation
DecPrefixed(ty, bs, p, strict) ==
  LET l == DecLen(bs, p) IN
  IF l.t # "ok" THEN DErr("eof", {})
  ELSE LET r   == Len(bs) - l.p
           ety == ElemTy(ty, 1)
           ms  == MinSize(ety)
           fl  == LenFlags(l.v, ms, r)
           cnt == IF FitsInt(l.v) THEN FromLE(l.v) ELSE -1
       IN IF ety[1] = "u8" /\ cnt >= 0                                       \* (shortcut: a byte per element)
            THEN IF cnt <= r THEN DOk([i \in 1..cnt |-> <<bs[l.p + i]>>], l.p + cnt, fl) ELSE DErr("eof", fl)
            \* elements that encode to zero bytes: every count can be satisfied by any input, the decoder
            \* iterates count times; counts above ZstMax are outside the generated space (flag "zst-huge")
            ELSE IF ms = 0 /\ (cnt < 0 \/ cnt > ZstMax) THEN DErr("eof", fl \cup {"zst-huge"})
            ELSE DecMany(ty, 1, cnt, bs, l.p, strict, <<>>, fl)

Dec(ty, bs, p, strict) ==
  LET tag == ty[1]
      N   == Len(bs)
  IN
  CASE IsIntTag(tag) -> LET w == IntWidth(tag) IN
                        IF p + w <= N THEN DOk(SubSeq(bs, p + 1, p + w), p + w, {}) ELSE DErr("eof", {})
    [] tag = "unit"  -> DOk(<<>>, p, {})
    [] tag = "bool"  -> IF p + 1 > N THEN DErr("eof", {})
                        ELSE IF bs[p + 1] = 0 THEN DOk(FALSE, p + 1, {})
                        ELSE IF bs[p + 1] = 1 \/ ~strict THEN DOk(TRUE, p + 1, {})
                        ELSE DErr("invalid", {})
    [] tag = "usize" -> LET l == DecLen(bs, p) IN
                        IF l.t # "ok" THEN DErr("eof", {})
                        ELSE IF FitsPlatform(l.v) THEN DOk(l.v, l.p, {}) ELSE DErr("invalid", {})
    [] tag = "string" ->
         LET l == DecLen(bs, p) IN
         IF l.t # "ok" THEN DErr("eof", {})
         ELSE LET r  == N - l.p
                  fl == LenFlags(l.v, 1, r)
              IN IF FitsInt(l.v) /\ FromLE(l.v) <= r
                   THEN LET n == FromLE(l.v)
                            s == SubSeq(bs, l.p + 1, l.p + n)
                        IN IF strict /\ ~ValidUtf8(s) THEN DErr("invalid", fl) ELSE DOk(s, l.p + n, fl)
                   ELSE DErr("eof", fl)
    [] tag = "opt"   -> IF p + 1 > N THEN DErr("eof", {})
                        ELSE IF bs[p + 1] = 0 THEN DOk(<<>>, p + 1, {})
                        ELSE IF bs[p + 1] = 1
                          THEN LET d == Dec(ty[2], bs, p + 1, strict) IN
                               IF d.t = "ok" THEN DOk(<<d.v>>, d.p, d.fl) ELSE d
                        ELSE DErr("invalid", {})
    [] tag = "arr"   -> DecMany(ty, 1, ty[2], bs, p, strict, <<>>, {})
    [] tag = "tuple" -> DecMany(ty, 1, Len(ty[2]), bs, p, strict, <<>>, {})
    [] tag = "vec"   -> DecPrefixed(ty, bs, p, strict)
    [] tag = "set"   -> LET d == DecPrefixed(ty, bs, p, strict) IN
                        IF d.t # "ok" THEN d ELSE DOk(MkSet(ty[2], d.v), d.p, d.fl)
    [] tag = "map"   -> LET d == DecPrefixed(ty, bs, p, strict) IN
                        IF d.t # "ok" THEN d
                        ELSE DOk(MkMap(ty[2], d.v), d.p,
                                 d.fl \cup (IF AnyConflict(ty[2], d.v, 1, <<>>) THEN {"dup"} ELSE {}))

(***************************************************************************)
(* The verdict for `read_from` on input bs                                 *)
(* Error kinds: the kind met first by sequential decoding is always        *)
(* acceptable; "invalid" is also acceptable when a length prefix exceeds   *)
(* the input ("short"); "eof" is also acceptable when the invalid input is *)
(* in addition too short.  The documentation does not order these checks.  *)
(***************************************************************************)
Verdict(ty, bs) ==
  LET d == Dec(ty, bs, 0, TRUE) IN
  IF d.t = "ok"
    THEN [t |-> "ok", n |-> d.p, val |-> d.v, kinds |-> <<>>, fl |-> d.fl]
    ELSE LET alsoInvalid == d.t = "eof" /\ "short" \in d.fl
             alsoEof     == d.t = "invalid" /\ Dec(ty, bs, 0, FALSE).t = "eof"
             kinds == IF d.t = "eof" THEN (IF alsoInvalid THEN <<"eof", "invalid">> ELSE <<"eof">>)
                      ELSE (IF alsoEof THEN <<"invalid", "eof">> ELSE <<"invalid">>)
         IN [t |-> "err", n |-> 0, val |-> <<>>, kinds |-> kinds, fl |-> d.fl]

(***************************************************************************)
(* Representative values per type (generator support)                      *)
(***************************************************************************)
Rot(r, n, o) == [i \in 1..n |-> r[((i - 1 + o) % Len(r)) + 1]]
Ascii(n)     == [i \in 1..n |-> 97 + (i % 26)]
Rep3(n)      == [i \in 1..(3 * n) |-> <<226, 130, 172>>[((i - 1) % 3) + 1]]          \* n times U+20AC
Rep4(n)      == [i \in 1..(4 * n) |-> <<240, 159, 152, 128>>[((i - 1) % 4) + 1]]     \* n times U+1F600
TwoPow(k)    == U64(BPow2(k))

RECURSIVE Reps(_)
Reps(ty) ==
  LET tag == ty[1] IN
  CASE tag = "unit"  -> << <<>> >>
    [] tag = "u8"    -> << <<0>>, <<1>>, <<2>>, <<127>>, <<128>>, <<255>> >>
    [] tag = "u16"   -> << <<0, 0>>, <<1, 0>>, <<0, 1>>, <<0, 128>>, <<255, 255>>, <<52, 18>> >>
    [] tag = "u32"   -> << Zeros(4), <<1, 0, 0, 0>>, <<0, 0, 0, 128>>, <<255, 255, 255, 255>>, <<120, 86, 52, 18>> >>
    [] tag = "u64"   -> << Zeros(8), LE(1, 8), <<0, 0, 0, 0, 0, 0, 0, 128>>, [i \in 1..8 |-> 255], [i \in 1..8 |-> i] >>
    [] tag = "u128"  -> << Zeros(16), LE(1, 16), Zeros(15) \o <<128>>, [i \in 1..16 |-> 255], [i \in 1..16 |-> i] >>
    [] tag = "bool"  -> << FALSE, TRUE >>
    [] tag = "usize" -> << USZ(0), USZ(1), USZ(127), USZ(128), USZ(16383), USZ(16384), TwoPow(32),
                           U64(BSub(BPow2(56), <<1>>)), TwoPow(56), [i \in 1..8 |-> 255] >>
    [] tag = "string" -> << <<>>, <<97>>, <<195, 169>>, <<226, 130, 172>>, <<240, 159, 152, 128>>,
                            <<97, 195, 169, 226, 130, 172>>, <<0>>, <<97, 98>> >>
                         \o [k \in 1..Len(LongLens) |-> Ascii(LongLens[k])]
                         \* long non-ASCII strings: multi-byte characters across every 4096-byte boundary
                         \o << Rep3(1366), <<97>> \o Rep4(1024) >>
    [] tag = "opt"   -> LET r == Reps(ty[2]) IN << <<>> >> \o [i \in 1..Min2(Len(r), 4) |-> <<r[i]>>]
    [] tag = "arr"   -> LET r == Reps(ty[3]) IN
                        IF ty[2] = 0 THEN << <<>> >> ELSE [o \in 1..Min2(Len(r), 3) |-> Rot(r, ty[2], o - 1)]
    [] tag = "vec"   -> LET r == Reps(ty[2]) IN
                        << <<>>, Rot(r, 1, 0), Rot(r, 1, 1), Rot(r, 2, 0), Rot(r, 2, 2), Rot(r, 3, 1), Rot(r, 5, 0) >>
                        \o (IF ty[2][1] = "u8" THEN [k \in 1..Len(LongLens) |-> Rot(r, LongLens[k], k)] ELSE <<>>)
    [] tag = "set"   -> LET r == Reps(ty[2]) IN
                        << <<>>, MkSet(ty[2], Rot(r, 1, 0)), MkSet(ty[2], Rot(r, 2, 0)), MkSet(ty[2], Rot(r, 3, 1)),
                           MkSet(ty[2], Rot(r, Min2(Len(r), 5), 0)) >>
    [] tag = "map"   -> LET rk == Reps(ty[2])
                            rv == Reps(ty[3])
                            E(n, ok, ov) == [i \in 1..n |-> <<rk[((i - 1 + ok) % Len(rk)) + 1], rv[((i - 1 + ov) % Len(rv)) + 1]>>]
                        IN << <<>>, MkMap(ty[2], E(1, 0, 0)), MkMap(ty[2], E(2, 0, 0)), MkMap(ty[2], E(3, 1, 2)),
                              MkMap(ty[2], E(Min2(Len(rk), 4), 0, 1)) >>
    [] tag = "tuple" -> [o \in 1..3 |-> [i \in 1..Len(ty[2]) |->
                             LET r == Reps(ty[2][i]) IN r[((o - 1 + i - 1) % Len(r)) + 1]]]

\* positions mutated / truncation points of an encoding: everything when short, both ends when long
\* (encodings above 1 KiB — the long non-ASCII strings — are replayed as round trips and one truncation only)
MutPos(enc)   == IF Len(enc) > 1024 THEN {} ELSE IF Len(enc) <= 48 THEN 1..Len(enc) ELSE (1..12) \cup ((Len(enc) - 3)..Len(enc))
TruncLens(enc) == IF Len(enc) > 1024 THEN {Len(enc) - 1} ELSE IF Len(enc) <= 48 THEN 0..(Len(enc) - 1) ELSE (0..12) \cup ((Len(enc) - 4)..(Len(enc) - 1))
=============================================================================
