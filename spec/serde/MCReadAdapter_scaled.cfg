\* Scaled instance: BufReader capacity 3 and compaction threshold 2, so that capacity-limited fills
\* and storage compaction are reached with tiny contents.
SPECIFICATION Spec
CONSTANTS MaxLen = 8  MinLen = 5  MaxOps = 4  Cap = 3  CompactAt = 2  Fixed = TRUE
  Kinds <- KindsTwo  Patterns <- PatsSmall  Ns <- NsScaled
INVARIANT Refines Conserves
VIEW view
CHECK_DEADLOCK FALSE
