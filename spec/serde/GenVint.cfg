\* C26 quick: all v < 4096, every boundary, seeded values, the raw decoder family.
SPECIFICATION Spec
CONSTANTS SmallBound = 4096
INVARIANT Laws Emit
CHECK_DEADLOCK FALSE
