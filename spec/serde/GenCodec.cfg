\* C26 quick: every (type, representative value) round trip, every truncation, every single-byte
\* corruption from {0,1,2,0x7F,0x80,0xC0,0xFF}, raw decoder inputs.
SPECIFICATION Spec
CONSTANTS CorruptWithTrailer = FALSE  AllPairs = FALSE
  LongLens <- LongQuick
INVARIANT Laws Emit
CHECK_DEADLOCK FALSE
