---------------------------- MODULE ReadAdapter ----------------------------
(* C27 — streaming reader (ReadAdapter over std::io::BufReader) vs the in-memory reader.

   Two layers:
   * the ABSTRACT reader: (content, apos) with the results the slice reader gives — this is the
     meaning of every ByteReader operation and the only source of expected results;
   * a CODE-SHAPED model of utils/core/src/serde/byte_reader.rs::ReadAdapter: the BufReader's
     buffer `rb`, the underlying stream position `up`, the adapter's own `buf`, `pos`,
     `guaranteed_eof`, and the chunk size returned by every underlying `read`, taken from a cyclic
     pattern.  Each public method is one operator transcribing the method's branches.

   `Refines` (checked by TLC, design level) says the code-shaped model returns what the abstract
   reader returns after every operation of every behaviour.  The generator configurations print one
   operation sequence per distinct transition of the code-shaped state graph, carrying the ABSTRACT
   expected results; the harness replays them on the real ReadAdapter with a scripted chunked
   `Read`.  Because expectations never come from the code-shaped part, an adapter re-implemented
   with different buffering passes as long as it is observably equivalent. *)
EXTENDS Naturals, Sequences, TLC, Bytes, Json

CONSTANTS MaxLen,     \* content lengths explored: 0..MaxLen
          MinLen,
          Kinds,      \* subset of {"idx", "zero", "one", "mix"}: byte values as a function of position
          Patterns,   \* set of chunk-size patterns (non-empty sequences of positive ints), cycled
          MaxOps,     \* operations per behaviour
          Ns,         \* lengths used for read_slice / read_array / check_eor
          Cap,        \* BufReader capacity (256 in the code)
          CompactAt,  \* threshold of `pos >= 16` in read_slice
          Fixed       \* TRUE: model the repaired adapter; FALSE: the adapter as found (see DESIGN §8)

VARIABLES content, pat, compact,    \* chosen in Init, constant afterwards
          apos,                      \* abstract reader position
          s,                         \* code-shaped adapter state (record)
          nops, last, hist, dead

vars == <<content, pat, compact, apos, s, nops, last, hist, dead>>
view == <<content, pat, compact, apos, s, nops, dead>>

ByteAt(kind, i) == CASE kind = "idx"  -> i % 256
                     [] kind = "zero" -> 0
                     [] kind = "one"  -> 1
                     [] kind = "mix"  -> (i * 37 + 91) % 256
MkContent(kind, n) == [i \in 1..n |-> ByteAt(kind, i)]

(***************************************************************************)
(* Results                                                                 *)
(***************************************************************************)
Ok(v)    == [t |-> "ok", v |-> v]
Eof      == [t |-> "eof", v |-> <<>>]
Invalid  == [t |-> "invalid", v |-> <<>>]
Panic    == [t |-> "panic", v |-> <<>>]

(***************************************************************************)
(* ABSTRACT reader: result and new position of each operation              *)
(***************************************************************************)
N == Len(content)
Avail(p, n) == p + n <= N
ABytes(p, n) == SubSeq(content, p + 1, p + n)

\* vint64: length from the trailing zeros of the first byte; value = LE(bytes) >> length
AUsize(p) ==
  IF ~Avail(p, 1) THEN [r |-> Eof, p |-> p]
  ELSE LET len == TZ8(content[p + 1]) + 1 IN
       IF len = 9
         THEN IF Avail(p + 1, 8) THEN [r |-> Ok(ABytes(p + 1, 8)), p |-> p + 9]
                                 ELSE [r |-> Eof, p |-> p + 1]     \* the tag byte was consumed
         ELSE IF Avail(p, len)
                THEN [r |-> Ok(ShrBits(PadTo(ABytes(p, len), 8), len)), p |-> p + len]
                ELSE [r |-> Eof, p |-> p]

AStep(op, p) ==
  CASE op.op = "u8"    -> IF Avail(p, 1) THEN [r |-> Ok(ABytes(p, 1)), p |-> p + 1] ELSE [r |-> Eof, p |-> p]
    [] op.op = "peek"  -> IF Avail(p, 1) THEN [r |-> Ok(ABytes(p, 1)), p |-> p] ELSE [r |-> Eof, p |-> p]
    [] op.op = "bool"  -> IF ~Avail(p, 1) THEN [r |-> Eof, p |-> p]
                          ELSE IF content[p + 1] \in {0, 1} THEN [r |-> Ok(ABytes(p, 1)), p |-> p + 1]
                          ELSE [r |-> Invalid, p |-> p + 1]
    [] op.op \in {"slice", "arr"} ->
                          IF Avail(p, op.n) THEN [r |-> Ok(ABytes(p, op.n)), p |-> p + op.n]
                          ELSE [r |-> Eof, p |-> p]
    [] op.op = "eor"   -> IF Avail(p, op.n) THEN [r |-> Ok(<<>>), p |-> p] ELSE [r |-> Eof, p |-> p]
    \* a request of 2^n bytes (n = 64 stands for usize::MAX): more than any content, consumes nothing
    [] op.op \in {"hslice", "heor"} -> [r |-> Eof, p |-> p]
    [] op.op = "more"  -> [r |-> Ok(<<IF p < N THEN 1 ELSE 0>>), p |-> p]
    [] op.op = "usize" -> AUsize(p)

(***************************************************************************)
(* CODE-SHAPED model                                                       *)
(***************************************************************************)
Init0 == [rb |-> <<>>, up |-> 0, fi |-> 0, buf |-> <<>>, pos |-> 0, geof |-> FALSE]

\* std::io::BufReader::fill_buf: reads from the stream only when its buffer is empty
Fill(st) ==
  IF st.rb # <<>> THEN st
  ELSE LET k == Min2(Min2(pat[(st.fi % Len(pat)) + 1], Cap), N - st.up)
       IN [st EXCEPT !.rb = SubSeq(content, st.up + 1, st.up + k), !.up = st.up + k, !.fi = st.fi + 1]
Consume(st, n) == [st EXCEPT !.rb = Drop(st.rb, n)]

Buffer(st) == IF st.pos <= Len(st.buf) THEN SubSeq(st.buf, st.pos + 1, Len(st.buf)) ELSE <<>>

\* non_empty_reader_buffer_mut: sets guaranteed_eof when the stream is exhausted
NERBMut(st) == LET t == Fill(st) IN
               IF t.rb = <<>> THEN [st |-> [t EXCEPT !.geof = TRUE], ok |-> FALSE]
                              ELSE [st |-> t, ok |-> TRUE]
\* non_empty_reader_buffer (shared borrow): does not touch guaranteed_eof
NERB(st) == LET t == Fill(st) IN [st |-> t, ok |-> t.rb # <<>>]

Pop(st) ==
  IF Buffer(st) # <<>> THEN [st |-> [st EXCEPT !.pos = st.pos + 1], r |-> Ok(<<Buffer(st)[1]>>)]
  ELSE LET f == NERBMut(st) IN
       IF f.ok THEN [st |-> Consume(f.st, 1), r |-> Ok(<<f.st.rb[1]>>)]
               ELSE [st |-> [f.st EXCEPT !.geof = TRUE], r |-> Eof]

\* buffer_at_least(count): returns [st, ok]
RECURSIVE BufferAtLeast(_, _, _)
BufferAtLeast(st, count, want) ==
  \* `want` is the number of bytes the caller needs in Buffer(st); the code as found tracks only
  \* the decreasing `count`, the repaired code compares against the unchanged target.
  IF (IF Fixed THEN Len(Buffer(st)) >= want ELSE (count = 0 \/ Len(Buffer(st)) >= count))
    THEN [st |-> st, ok |-> TRUE]
    ELSE LET f == NERBMut(st) IN
         IF ~f.ok THEN [st |-> f.st, ok |-> FALSE]
         ELSE LET m == Len(f.st.rb)
                  \* repaired code: a buffer dropped by read_exact leaves pos past its end; restart at 0
                  p0 == IF Fixed /\ f.st.pos > Len(f.st.buf) THEN 0 ELSE f.st.pos
                  t == [f.st EXCEPT !.buf = f.st.buf \o f.st.rb, !.rb = <<>>, !.pos = p0]
              IN BufferAtLeast(t, IF count > m THEN count - m ELSE 0, want)

\* the "reset our internal buffer" epilogue of read_exact
ResetIfDrained(st) ==
  IF Buffer(st) = <<>> /\ st.pos > 0
    THEN [st EXCEPT !.buf = <<>>]       \* pos is left as it is (an existing unit test pins that)
    ELSE st

ReadExact(st, n) ==
  LET b == Buffer(st) IN
  IF Len(b) = 0 THEN
       LET f == NERBMut(st) IN
       IF ~f.ok THEN [st |-> f.st, r |-> Eof]
       ELSE IF Len(f.st.rb) < n
              THEN IF Fixed
                     THEN \* repaired: fall back to buffering, like the third arm
                          LET g == BufferAtLeast(f.st, n, n) IN
                          IF ~g.ok THEN [st |-> g.st, r |-> Eof]
                          ELSE [st |-> ResetIfDrained([g.st EXCEPT !.pos = g.st.pos + n]),
                                r |-> Ok(SubSeq(Buffer(g.st), 1, n))]
                     ELSE [st |-> f.st, r |-> Eof]
              ELSE [st |-> ResetIfDrained(Consume(f.st, n)), r |-> Ok(SubSeq(f.st.rb, 1, n))]
  ELSE IF Len(b) >= n THEN
       [st |-> ResetIfDrained([st EXCEPT !.pos = st.pos + n]), r |-> Ok(SubSeq(b, 1, n))]
  ELSE LET f == NERBMut(st) IN
       IF ~f.ok THEN [st |-> f.st, r |-> Eof]
       ELSE LET m == Len(f.st.rb)  k == Len(b) IN
            IF m + k >= n
              THEN [st |-> ResetIfDrained(Consume([f.st EXCEPT !.pos = f.st.pos + k], n - k)),
                    r |-> Ok(b \o SubSeq(f.st.rb, 1, n - k))]
              ELSE LET g == BufferAtLeast(f.st, n - (m + k), n) IN
                   IF ~g.ok THEN [st |-> g.st, r |-> Eof]
                   ELSE IF Len(Buffer(g.st)) < n THEN [st |-> g.st, r |-> Panic]
                   ELSE [st |-> [g.st EXCEPT !.pos = g.st.pos + n], r |-> Ok(SubSeq(Buffer(g.st), 1, n))]

ReadSlice(st, len) ==
  IF len = 0 THEN [st |-> st, r |-> Ok(<<>>)]
  ELSE LET st1 == IF st.pos >= CompactAt /\ compact
                    THEN [st EXCEPT !.buf = Buffer(st), !.pos = 0] ELSE st
           g == BufferAtLeast(st1, len, len)
       IN IF ~g.ok THEN [st |-> g.st, r |-> Eof]
          ELSE IF g.st.pos + len > Len(g.st.buf) THEN [st |-> g.st, r |-> Panic]   \* slice index out of range
          ELSE [st |-> [g.st EXCEPT !.pos = g.st.pos + len],
                r |-> Ok(SubSeq(g.st.buf, g.st.pos + 1, g.st.pos + len))]

Peek(st) == IF Buffer(st) # <<>> THEN [st |-> st, r |-> Ok(<<Buffer(st)[1]>>)]
            ELSE LET f == NERB(st) IN
                 IF f.ok THEN [st |-> f.st, r |-> Ok(<<f.st.rb[1]>>)] ELSE [st |-> f.st, r |-> Eof]

CheckEor(st, n) ==
  IF Len(Buffer(st)) >= n THEN [st |-> st, r |-> Ok(<<>>)]
  ELSE LET f == NERB(st) IN
       IF ~f.ok THEN [st |-> f.st, r |-> Eof]
       ELSE IF Len(Buffer(st)) + Len(f.st.rb) >= n THEN [st |-> f.st, r |-> Ok(<<>>)]
       ELSE IF f.st.geof THEN [st |-> f.st, r |-> Eof]
       ELSE [st |-> f.st, r |-> Ok(<<>>)]

HasMore(st) == IF Buffer(st) # <<>> THEN [st |-> st, r |-> Ok(<<1>>)]
               ELSE LET f == NERB(st) IN [st |-> f.st, r |-> Ok(<<IF f.ok THEN 1 ELSE 0>>)]

ReadArray(st, n) == IF n = 0 THEN [st |-> st, r |-> Ok(<<>>)] ELSE ReadExact(st, n)

\* provided trait methods, composed exactly as in the trait
ReadBool(st) == LET a == Pop(st) IN
                IF a.r.t # "ok" THEN a
                ELSE IF a.r.v[1] \in {0, 1} THEN a ELSE [st |-> a.st, r |-> Invalid]

ReadUsize(st) ==
  LET pk == Peek(st) IN
  IF pk.r.t # "ok" THEN pk
  ELSE LET len == TZ8(pk.r.v[1]) + 1 IN
       IF len = 9
         THEN LET a == Pop(pk.st) IN
              IF a.r.t # "ok" THEN a ELSE ReadArray(a.st, 8)
         ELSE LET a == ReadSlice(pk.st, len) IN
              IF a.r.t # "ok" THEN a ELSE [st |-> a.st, r |-> Ok(ShrBits(PadTo(a.r.v, 8), len))]

\* stand-in for a length of 2^31 .. usize::MAX in the code-shaped model: larger than any content
HugeLen == 2 ^ 30
HugeExps == {31, 40, 63, 64}
CStep(op, st) ==
  CASE op.op = "u8"    -> Pop(st)
    [] op.op = "peek"  -> Peek(st)
    [] op.op = "bool"  -> ReadBool(st)
    [] op.op = "slice" -> ReadSlice(st, op.n)
    [] op.op = "arr"   -> ReadArray(st, op.n)
    [] op.op = "eor"   -> CheckEor(st, op.n)
    [] op.op = "hslice" -> ReadSlice(st, HugeLen)
    [] op.op = "heor"  -> CheckEor(st, HugeLen)
    [] op.op = "more"  -> HasMore(st)
    [] op.op = "usize" -> ReadUsize(st)

(***************************************************************************)
(* The state machine                                                       *)
(***************************************************************************)
Ops == {[op |-> o, n |-> 0] : o \in {"u8", "peek", "bool", "more", "usize"}}
       \cup {[op |-> o, n |-> n] : o \in {"slice", "arr", "eor"}, n \in Ns}
       \cup {[op |-> "hslice", n |-> e] : e \in HugeExps} \cup {[op |-> "heor", n |-> 63]}

Init == /\ \E k \in Kinds, n \in MinLen..MaxLen : content = MkContent(k, n)
        /\ pat \in Patterns
        /\ compact \in BOOLEAN
        /\ apos = 0
        /\ s = Init0
        /\ nops = 0
        /\ last = [op |-> [op |-> "none", n |-> 0], res |-> Ok(<<>>), exp |-> Ok(<<>>)]
        /\ hist = <<>>
        /\ dead = FALSE

Do(op) == /\ nops < MaxOps
          /\ ~dead
          /\ LET a == AStep(op, apos)
                 c == CStep(op, s)
             IN /\ apos' = a.p
                /\ s' = c.st
                /\ last' = [op |-> op, res |-> c.r, exp |-> a.r]
                /\ hist' = Append(hist, [op |-> op.op, n |-> op.n, t |-> a.r.t, v |-> a.r.v])
                /\ dead' = (c.r.t = "panic")
          /\ nops' = nops + 1
          /\ UNCHANGED <<content, pat, compact>>

Next == \E op \in Ops : Do(op)
Spec == Init /\ [][Next]_vars

(***************************************************************************)
(* Properties                                                              *)
(***************************************************************************)
\* The property: same values and same end-of-input errors; check_eor may be optimistic but never
\* reports missing data that is actually available; never panics.
Agrees(op, res, exp) ==
  /\ res.t # "panic"
  /\ IF op.op \in {"eor", "heor"} THEN (exp.t = "ok" => res.t = "ok") ELSE res = exp

Refines == Agrees(last.op, last.res, last.exp)

\* sanity of the code-shaped bookkeeping: what the adapter still holds plus what the stream still
\* holds is exactly the unread content (when this breaks, Refines breaks a step later)
Unread == Buffer(s) \o s.rb \o SubSeq(content, s.up + 1, N)
Conserves == dead \/ Unread = SubSeq(content, apos + 1, N)

(***************************************************************************)
(* Scenario emission (generator configurations only)                       *)
(***************************************************************************)
Scenario(h) == [content |-> content, pat |-> pat, compact |-> compact, ops |-> h]
Emit == PrintT(<<"REPLAY", ToJson(Scenario(hist'))>>)
\* in simulation mode: one scenario per behaviour, printed when the behaviour ends
EmitAtEnd == (nops = MaxOps \/ dead) => PrintT(<<"REPLAY", ToJson(Scenario(hist))>>)
=============================================================================
