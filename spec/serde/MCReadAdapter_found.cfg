\* The adapter AS FOUND in the pinned tree (Fixed = FALSE): TLC is expected to report Refines violated
\* (design-level finding, DESIGN §8). Not a gate.
SPECIFICATION Spec
CONSTANTS MaxLen = 6  MinLen = 0  MaxOps = 3  Cap = 256  CompactAt = 16  Fixed = FALSE
  Kinds <- KindsTwo  Patterns <- PatsSmall  Ns <- NsSmall
INVARIANT Refines
VIEW view
CHECK_DEADLOCK FALSE
