------------------------------ MODULE MCCodec ------------------------------
(* Generator for the typed encodings (C26).  Init holds one state
   per (type, representative value) round trip and one per raw decoder input, Next derives from a
   round-trip state its variant with trailing bytes, every truncation and every single-byte
   corruption of the encoding.  The always-true invariant Emit prints, for every state, the scenario
   with everything Codec.tla expects of the real code; Laws is the design-level self-check. *)
EXTENDS Codec, Json

CONSTANTS CorruptWithTrailer,   \* BOOLEAN: also replay every corruption followed by trailing bytes
          AllPairs              \* BOOLEAN: raw strings include every two-byte string
VARIABLE c

U8 == <<"u8">>      U16 == <<"u16">>    U32 == <<"u32">>    U64T == <<"u64">>   U128 == <<"u128">>
BOOL == <<"bool">>  USIZE == <<"usize">> STR == <<"string">> UNIT == <<"unit">>
Opt(t) == <<"opt", t>>          Arr(n, t) == <<"arr", n, t>>     Vec(t) == <<"vec", t>>
SetT(t) == <<"set", t>>         MapT(k, v) == <<"map", k, v>>    Tup(ts) == <<"tuple", ts>>

\* the menu (the harness has one monomorphic Rust type per entry); nesting depth <= 2
Types == <<
  UNIT, U8, U16, U32, U64T, U128, BOOL, USIZE, STR,
  Opt(U8), Opt(U64T), Opt(BOOL), Opt(USIZE), Opt(STR),
  Opt(Opt(U8)), Opt(Vec(U8)), Opt(Tup(<<U8, U16>>)), Opt(Arr(2, U16)), Opt(MapT(U8, U8)), Opt(SetT(U8)),
  Arr(0, U8), Arr(1, U8), Arr(4, U16), Arr(3, BOOL), Arr(2, USIZE), Arr(8, U8), Arr(32, U8), Arr(2, U64T), Arr(2, STR),
  Arr(2, Opt(U8)), Arr(2, Vec(U8)), Arr(2, Tup(<<U8, BOOL>>)),
  Vec(U8), Vec(U16), Vec(U32), Vec(U64T), Vec(U128), Vec(BOOL), Vec(USIZE), Vec(STR),
  Vec(Opt(U8)), Vec(Opt(U16)), Vec(Vec(U8)), Vec(Arr(2, U16)), Vec(Tup(<<U8, U16>>)), Vec(SetT(U8)), Vec(MapT(U8, U8)),
  SetT(U8), SetT(U16), SetT(U64T), SetT(USIZE), SetT(STR), SetT(BOOL),
  SetT(Tup(<<U8, U8>>)), SetT(Opt(U8)), SetT(Vec(U8)), SetT(Arr(2, U8)),
  MapT(U8, U16), MapT(U16, BOOL), MapT(U64T, U8), MapT(STR, U8), MapT(U8, STR), MapT(USIZE, USIZE), MapT(BOOL, U32),
  MapT(U8, Vec(U8)), MapT(U8, Opt(U8)), MapT(Tup(<<U8, U8>>), U8), MapT(STR, Vec(U16)), MapT(U8, MapT(U8, U8)), MapT(Arr(2, U8), U8),
  Tup(<<U8>>), Tup(<<U8, U16>>), Tup(<<U8, U32, BOOL>>), Tup(<<U16, U64T, U128, USIZE>>), Tup(<<BOOL, U8, U16, U32, U64T>>),
  Tup(<<U8, BOOL, STR, USIZE, U16, U128>>),
  Tup(<<Vec(U8), STR>>), Tup(<<Opt(U16), Arr(2, U8)>>), Tup(<<SetT(U8), MapT(U8, U8), BOOL>>), Tup(<<Vec(BOOL), Opt(BOOL), U8, USIZE>>),
  Tup(<<STR, STR, Vec(STR)>>), Tup(<<U8, BOOL, STR, USIZE, Opt(U8), Vec(U8)>>), Tup(<<UNIT, U8>>), Tup(<<USIZE, USIZE>>),
  \* types whose elements encode to ZERO bytes (a collection of them may end exactly at the end of the
  \* input although elements remain to be "read"), alone, nested one level, and before / after other data
  Opt(UNIT), Vec(UNIT), Arr(4, UNIT), Arr(0, U16), Vec(Arr(0, U16)), SetT(UNIT), MapT(UNIT, Arr(0, U8)), Vec(Tup(<<UNIT, UNIT>>)),
  Vec(Arr(2, UNIT)), Vec(Vec(UNIT)), Opt(Vec(UNIT)), Arr(2, Vec(UNIT)), MapT(U8, Vec(UNIT)), Vec(Opt(UNIT)),
  Tup(<<U8, Vec(UNIT)>>), Tup(<<Vec(UNIT), U8>>), Tup(<<UNIT, Vec(UNIT), UNIT>>), Tup(<<Vec(UNIT), U128>>),
  Tup(<<U8, Arr(4, UNIT)>>), Tup(<<Arr(4, UNIT), U8>>), Tup(<<SetT(UNIT), MapT(UNIT, Arr(0, U8))>>), Tup(<<U16, UNIT>>)
>>
NT == Len(Types)


CorruptBytes == {0, 1, 2, 127, 128, 192, 255}
Trailer == <<170, 1>>

(***************************************************************************)
(* Raw decoder inputs                                                      *)
(***************************************************************************)
RawOf(ty, input) == [ty |-> ty, input |-> input]
StrInput(s) == RawOf(STR, VEncode(USZ(Len(s))) \o s)

Leads2 == <<65, 127, 128, 191, 192, 193, 194, 223, 224, 237, 239, 240, 244, 245, 255>>
Leads3 == <<224, 225, 237, 238, 240, 241, 244>>
Edge2  == <<127, 128, 143, 144, 159, 160, 191, 192>>
Edge3  == <<127, 128, 191, 192>>
Leads4 == <<240, 241, 244>>
Pick(s, k, stride) == s[((k \div stride) % Len(s)) + 1]

RawStrings == <<
  <<192, 128>>, <<193, 191>>, <<224, 128, 128>>, <<224, 159, 191>>, <<224, 160, 128>>, <<237, 159, 191>>, <<237, 160, 128>>,
  <<237, 191, 191>>, <<238, 128, 128>>, <<239, 191, 191>>, <<240, 128, 128, 128>>, <<240, 143, 191, 191>>, <<240, 144, 128, 128>>,
  <<244, 143, 191, 191>>, <<244, 144, 128, 128>>, <<245, 128, 128, 128>>, <<248, 136, 128, 128, 128>>, <<226, 130>>, <<240, 159, 152>>,
  <<97, 128>>, <<97, 226, 130, 172, 98>>, <<195, 40>>, <<226, 40, 161>>, <<226, 130, 40>>, <<240, 40, 140, 188>>, <<240, 144, 40, 188>>,
  <<240, 40, 140, 40>>, <<194, 128>>, <<223, 191>>, <<225, 128, 128>>, <<243, 191, 191, 191>>, <<236, 191, 191>>, <<241, 128, 128, 128>>,
  <<97, 98, 99, 100, 101, 255>>, <<255, 97, 98, 99, 100, 101>>, <<97, 98, 240, 159, 152, 128>>, <<97, 98, 99, 240, 159, 152>> >>

RawCases ==
     [b \in 1..256 |-> RawOf(BOOL, <<b - 1>>)]
  \o [b \in 1..256 |-> RawOf(Opt(U8), <<b - 1, 7>>)]
  \o [b \in 1..256 |-> RawOf(Vec(BOOL), <<5, 1, b - 1>>)]
  \o [b \in 1..256 |-> StrInput(<<b - 1>>)]
  \o [k \in 1..(Len(Leads2) * 256) |-> StrInput(<<Pick(Leads2, k - 1, 256), (k - 1) % 256>>)]
  \o [k \in 1..(Len(Leads3) * 8 * 4) |-> StrInput(<<Pick(Leads3, k - 1, 32), Pick(Edge2, k - 1, 4), Pick(Edge3, k - 1, 1)>>)]
  \o [k \in 1..(Len(Leads4) * 8 * 4 * 4) |->
        StrInput(<<Pick(Leads4, k - 1, 128), Pick(Edge2, k - 1, 16), Pick(Edge3, k - 1, 4), Pick(Edge3, k - 1, 1)>>)]
  \o [k \in 1..Len(RawStrings) |-> StrInput(RawStrings[k])]
  \o (IF AllPairs THEN [k \in 1..65536 |-> StrInput(<<(k - 1) \div 256, (k - 1) % 256>>)] ELSE <<>>)
  \o << \* non-minimal length prefixes (2-, 3-, 8- and 9-byte forms of small lengths)
        RawOf(Vec(U8), <<10, 0, 5, 6>>), RawOf(Vec(U8), <<20, 0, 0, 5, 6>>), RawOf(Vec(U8), <<0, 2, 0, 0, 0, 0, 0, 0, 0, 5, 6>>),
        RawOf(Vec(U8), <<0, 2, 0, 0, 0, 0, 0, 0, 0, 5>>), RawOf(STR, <<6, 0, 97>>), RawOf(STR, <<0, 1, 0, 0, 0, 0, 0, 0, 0, 128>>),
        RawOf(Vec(U16), <<128, 1, 0, 0, 0, 0, 0, 0, 52, 18>>), RawOf(Vec(U16), <<128, 1, 0, 0, 0, 0, 0, 0, 52>>),
        RawOf(USIZE, <<0, 255, 255, 255, 255, 255, 255, 255, 255, 9>>),
        \* unsorted / repeated set elements and map keys
        RawOf(SetT(U8), <<7, 9, 3, 9>>), RawOf(SetT(U16), <<5, 0, 1, 255, 0>>), RawOf(SetT(STR), <<5, 3, 98, 3, 97>>),
        RawOf(MapT(U8, U16), <<5, 9, 1, 0, 3, 2, 0>>), RawOf(MapT(U8, U16), <<5, 1, 10, 0, 1, 20, 0>>),
        RawOf(MapT(U8, U16), <<5, 1, 10, 0, 1, 10, 0>>), RawOf(MapT(BOOL, U32), <<5, 1, 1, 0, 0, 0, 0, 2, 0, 0, 0>>),
        RawOf(MapT(BOOL, U32), <<5, 1, 1, 0, 0, 0, 2, 2, 0, 0, 0>>), RawOf(SetT(Tup(<<U8, U8>>)), <<5, 2, 1, 1, 2>>),
        RawOf(SetT(Vec(U8)), <<5, 5, 1, 2, 3, 1>>), RawOf(SetT(Opt(U8)), <<7, 1, 0, 0, 1, 0>>),
        \* several elements of a zero-sized type (sets / maps cannot produce these themselves), collection last
        \* in the input and followed by other data; non-minimal prefixes; counts 0..1024 and just above ZstMax
        RawOf(SetT(UNIT), <<7>>), RawOf(SetT(UNIT), <<7, 9>>), RawOf(MapT(UNIT, Arr(0, U8)), <<7>>), RawOf(MapT(UNIT, Arr(0, U8)), <<11, 1>>),
        RawOf(Vec(UNIT), <<255>>), RawOf(Vec(UNIT), <<255, 255>>), RawOf(Vec(UNIT), <<14, 0>>), RawOf(Vec(UNIT), <<2, 16>>),
        RawOf(Vec(UNIT), <<6, 16>>), RawOf(Vec(UNIT), <<0, 5, 0, 0, 0, 0, 0, 0, 0>>), RawOf(Vec(UNIT), <<0, 5, 0, 0, 0, 0, 0, 0>>),
        RawOf(Vec(Arr(0, U16)), <<9>>), RawOf(Vec(Vec(UNIT)), <<5, 7, 9>>), RawOf(Vec(Vec(UNIT)), <<5, 7>>),
        RawOf(Tup(<<U8, Vec(UNIT)>>), <<5, 7>>), RawOf(Tup(<<Vec(UNIT), U8>>), <<7, 5>>), RawOf(Tup(<<Vec(UNIT), U8>>), <<7>>),
        RawOf(Tup(<<SetT(UNIT), MapT(UNIT, Arr(0, U8))>>), <<7, 5>>), RawOf(Opt(Vec(UNIT)), <<1, 9>>), RawOf(Vec(Opt(UNIT)), <<5, 1, 0>>),
        \* length prefixes far beyond the input: 2^63, 2^61 (x 8 bytes), 2^64-1, 2^40, 2^32, 2^30, 2^21
        RawOf(Vec(U8), <<0, 0, 0, 0, 0, 0, 0, 0, 128, 1, 2>>), RawOf(Vec(U64T), <<0, 0, 0, 0, 0, 0, 0, 0, 32, 1, 2>>),
        RawOf(STR, <<0, 255, 255, 255, 255, 255, 255, 255, 255, 97>>), RawOf(Vec(U8), <<0, 0, 0, 0, 0, 0, 1, 0, 0, 1, 2>>),
        RawOf(Vec(U8), <<0, 0, 0, 0, 0, 1, 0, 0, 0, 1, 2>>), RawOf(Vec(U8), <<0, 0, 0, 0, 64, 0, 0, 0, 0, 1, 2>>),
        RawOf(Vec(U8), <<8, 0, 0, 4, 1, 2>>), RawOf(SetT(U8), <<0, 0, 0, 0, 0, 0, 0, 0, 128, 1, 2>>),
        RawOf(MapT(U8, U16), <<0, 0, 0, 0, 0, 0, 0, 0, 64, 1, 2, 3>>), RawOf(Vec(STR), <<128, 0, 0, 0, 0, 0, 0, 128, 1, 97>>),
        RawOf(Opt(Vec(U8)), <<1, 0, 0, 0, 0, 0, 0, 0, 0, 128>>), RawOf(Vec(Vec(U8)), <<3, 0, 0, 0, 0, 0, 0, 0, 0, 128>>) >>

(***************************************************************************)
(* State machine                                                           *)
(***************************************************************************)
\* The state carries the value and its encoding (TLC evaluates function constructors lazily and would
\* otherwise rebuild the representatives of a type at every use).  v is kept for round trips only.
Init == \/ \E ti \in 1..NT : \E vi \in 1..Len(Reps(Types[ti])) :
              LET v == Reps(Types[ti])[vi] IN
              c = [m |-> "rt", ti |-> ti, vi |-> vi, v |-> v, enc |-> Encode(Types[ti], v), p |-> 0, b |-> 0, tr |-> 0]
        \/ \E k \in 1..Len(RawCases) :
              c = [m |-> "raw", ti |-> 0, vi |-> k, v |-> <<>>, enc |-> RawCases[k].input, p |-> 0, b |-> 0, tr |-> 0]

Next == /\ c.m = "rt" /\ c.tr = 0
        /\ \/ c' = [c EXCEPT !.tr = 1]
           \/ \E j \in TruncLens(c.enc) : c' = [c EXCEPT !.m = "trunc", !.p = j, !.v = <<>>]
           \/ \E j \in MutPos(c.enc), b \in CorruptBytes, tr \in (IF CorruptWithTrailer THEN {0, 1} ELSE {0}) :
                 b # c.enc[j] /\ c' = [c EXCEPT !.m = "corrupt", !.p = j, !.b = b, !.tr = tr, !.v = <<>>]
Spec == Init /\ [][Next]_c

TypeOf(s)  == IF s.m = "raw" THEN RawCases[s.vi].ty ELSE Types[s.ti]
InputOf(s) ==
  LET tail == IF s.tr = 1 THEN Trailer ELSE <<>> IN
  CASE s.m = "raw"     -> s.enc
    [] s.m = "rt"      -> s.enc \o tail
    [] s.m = "trunc"   -> SubSeq(s.enc, 1, s.p)
    [] s.m = "corrupt" -> [s.enc EXCEPT ![s.p] = s.b] \o tail

FlSeq(fl) == (IF "big" \in fl THEN <<"big">> ELSE <<>>) \o (IF "short" \in fl THEN <<"short">> ELSE <<>>)
             \o (IF "dup" \in fl THEN <<"dup">> ELSE <<>>) \o (IF "zst-huge" \in fl THEN <<"zst-huge">> ELSE <<>>)

Scenario(s) ==
  LET ty == TypeOf(s)
      rt == s.m = "rt"
      vd == Verdict(ty, InputOf(s))
      enc == IF rt THEN s.enc ELSE <<>>
  IN [ty |-> ty, kind |-> s.m,
      cls |-> IF rt THEN "own-encoding" ELSE IF "big" \in vd.fl THEN "length-prefix>=2^20"
              ELSE IF "short" \in vd.fl THEN "length-prefix>input" ELSE s.m,
      v |-> IF rt THEN s.v ELSE <<>>, enc |-> enc,
      hint |-> IF rt /\ ty[1] = "usize" THEN Len(enc) ELSE -1,
      input |-> InputOf(s),
      exp |-> [t |-> vd.t, n |-> vd.n, val |-> vd.val, kinds |-> vd.kinds],
      fl |-> FlSeq(vd.fl)]

\* cases announcing more than ZstMax zero-sized elements are outside the generated space (the real decoder
\* would iterate that many times; whether that is acceptable is not C26's business)
Emit == LET sc == Scenario(c) IN
        IF \E i \in 1..Len(sc.fl) : sc.fl[i] = "zst-huge"
          THEN PrintT(<<"EXCLUDED", ToJson([ty |-> sc.ty, input |-> sc.input])>>)
          ELSE PrintT(<<"REPLAY", ToJson(sc)>>)

(***************************************************************************)
(* Design-level laws of the specification itself                           *)
(***************************************************************************)
Utf8Law(input) == LET l == DecLen(input, 0) IN
                  (l.t = "ok" /\ FitsInt(l.v) /\ FromLE(l.v) <= Len(input) - l.p)
                    => LET s == SubSeq(input, l.p + 1, l.p + FromLE(l.v)) IN ValidUtf8(s) = Utf8Den(s, 1)
Laws ==
  LET ty == TypeOf(c)
      vd == Verdict(ty, InputOf(c))
  IN /\ c.m = "rt" => /\ vd.t = "ok"
                      /\ vd.n = Len(c.enc)                       \* consumes exactly the encoding
                      /\ vd.val = c.v                            \* decodes to the same value
                      /\ vd.fl \subseteq {}
     /\ (c.m = "trunc" /\ "zst-huge" \notin vd.fl) => vd.t = "err" /\ vd.kinds[1] = "eof"     \* encodings are prefix-free
     /\ ty[1] = "string" => Utf8Law(InputOf(c))
     /\ ("short" \in vd.fl \/ "big" \in vd.fl) => vd.t = "err"

LongQuick    == <<127, 128>>
LongThorough == <<127, 128, 129, 300, 1000>>

=============================================================================
