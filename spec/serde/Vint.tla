-------------------------------- MODULE Vint --------------------------------
(* C26 — the variable-length size encoding ("vint64") of winterfell's serialization layer
   (ByteWriter::write_usize, ByteReader::read_usize, usize::get_size_hint).

   A size value is a natural number below 2^64.  TLC integers are 32-bit, so a value is a
   little-endian sequence of 8 bytes and all arithmetic is BigNat arithmetic.

   Documented format (https://docs.rs/vint64): the number of trailing zero bits of the first byte says
   how many additional bytes follow; a value below 2^(7k) takes k bytes (k = 1..8), anything else
   takes 9 bytes.  The k-byte image is the number (2v + 1) * 2^(k-1) written little-endian in k bytes;
   the 9-byte image is a zero byte followed by the 8 little-endian bytes of v.

   This module is purely definitional (no variables); MCVint.tla holds the generator. *)
EXTENDS Integers, Sequences, Bytes, BigNat

U64(v)   == PadTo(Trim(v), 8)                 \* the canonical 8-byte image of a BigNat < 2^64
IsU64(v) == Len(v) = 8 /\ IsBytes(v)

(***************************************************************************)
(* Encoded length: the threshold table                                     *)
(***************************************************************************)
VLen(v) == IF \E k \in 1..8 : BLess(v, BPow2(7 * k))
             THEN CHOOSE k \in 1..8 : /\ BLess(v, BPow2(7 * k))
                                      /\ \A j \in 1..(k - 1) : ~BLess(v, BPow2(7 * j))
             ELSE 9

(* The same length the way the code computes it: 9 - min(8, (leading_zeros(v) -. 1) / 7).
   Only used for the design-level check that both formulations agree on every enumerated value. *)
LZ64(v) == LET t == Trim(v) IN
           IF t = <<>> THEN 64 ELSE 8 * (8 - Len(t)) + LZ8(t[Len(t)])
VLenLz(v) == 9 - Min2(8, Max2(LZ64(v) - 1, 0) \div 7)

(***************************************************************************)
(* Encoding                                                                *)
(***************************************************************************)
VEncode(v) ==
  LET n == VLen(v) IN
  IF n = 9 THEN <<0>> \o U64(v)
  ELSE PadTo(BMulInt(BAddInt(BMulInt(v, 2), 1), 2 ^ (n - 1)), n)   \* (2v+1)*2^(n-1) < 2^(8n)

(***************************************************************************)
(* Decoding of an arbitrary byte string: what is returned and how many     *)
(* bytes are consumed, or end-of-input                                     *)
(***************************************************************************)
VOk(v, n) == [t |-> "ok", v |-> v, n |-> n]
VEof      == [t |-> "eof", v |-> <<>>, n |-> 0]

VDecode(bs) ==
  IF bs = <<>> THEN VEof
  ELSE LET k == TZ8(bs[1]) + 1 IN
       IF k = 9
         THEN IF Len(bs) >= 9 THEN VOk(SubSeq(bs, 2, 9), 9) ELSE VEof
         ELSE IF Len(bs) >= k
                THEN VOk(PadTo(BDivModInt(SubSeq(bs, 1, k), 2 ^ k)[1], 8), k)   \* floor(LE(bytes) / 2^k)
                ELSE VEof

(***************************************************************************)
(* Design-level laws (checked by TLC on every enumerated value / string)   *)
(***************************************************************************)
\* own encodings decode to the same value and consume exactly the encoding, whatever follows
RoundTripLaw(v, tail) == /\ Len(VEncode(v)) = VLen(v)
                         /\ VDecode(VEncode(v) \o tail) = VOk(U64(v), VLen(v))
LenLaw(v) == VLen(v) = VLenLz(v)
\* the encoder is minimal and canonical among everything the decoder accepts
MinimalLaw(bs) == LET d == VDecode(bs) IN
                  d.t = "ok" => /\ d.n >= VLen(d.v)
                                /\ (d.n = VLen(d.v) => SubSeq(bs, 1, d.n) = VEncode(d.v))
=============================================================================
