--------------------------- MODULE MCReadAdapter ---------------------------
(* Model-checking / generator instances of ReadAdapter. Constants that are not plain numbers are
   defined here and substituted in the .cfg files. *)
EXTENDS ReadAdapter

PatsSmall  == {<<1>>, <<2>>, <<3>>, <<256>>, <<1, 3>>, <<2, 1>>}
PatsBig    == {<<1>>, <<7>>, <<100>>, <<255>>, <<256>>, <<300>>, <<1, 200>>, <<255, 2>>, <<16, 1, 250>>, <<3, 5, 64>>}
KindsAll   == {"idx", "zero", "one", "mix"}
KindsTwo   == {"idx", "zero"}
NsSmall    == {0, 1, 2, 3, 4, 8}
NsScaled   == {0, 1, 2, 3, 5}
NsBig      == {0, 1, 2, 3, 4, 5, 7, 8, 16, 17, 32, 100, 255, 256, 257, 300, 513}
=============================================================================
