\* C26 thorough: all v < 32768 (DESIGN: 2^15), every boundary, seeded values, the raw decoder family.
SPECIFICATION Spec
CONSTANTS SmallBound = 32768
INVARIANT Laws Emit
CHECK_DEADLOCK FALSE
