\* Design-level refinement check of the (repaired) adapter: exhaustive within the bounds.
SPECIFICATION Spec
CONSTANTS MaxLen = 7  MinLen = 0  MaxOps = 4  Cap = 256  CompactAt = 16  Fixed = TRUE
  Kinds <- KindsTwo  Patterns <- PatsSmall  Ns <- NsSmall
INVARIANT Refines Conserves
VIEW view
CHECK_DEADLOCK FALSE
