------------------------------- MODULE MCVint -------------------------------
(* Generator for the vint64 size encoding (C26).  Every case is a state; the always-true
   invariant Emit prints the case with everything the specification expects of the real code
   (exact bytes, size hint, decoded value, bytes consumed, or end-of-input), in the scenario format
   of the harness engine "codec" (type usize).  Laws is the design-level self-check of Vint.tla.

   Values: every v < SmallBound; 2^(7k)-1, 2^(7k), 2^(7k)+1 for k = 1..9 (every encoded-length
   boundary); 2^(8j)-1, 2^(8j), 2^(8j)+1; 2^63; 2^64-2; 2^64-1; and the seeded values the check driver
   passes through the environment variable C26_RANDOM (a JSON file of 8-byte arrays).
   Raw decoder inputs: every first byte x three fillings x every length 0..11.
   Truncations: every proper prefix of the encoding of every boundary value. *)
EXTENDS Vint, TLC, Json, IOUtils

CONSTANT SmallBound
VARIABLE c

Around(x)  == << U64(BSub(x, <<1>>)), U64(x), U64(BAddInt(x, 1)) >>
Boundaries == Concat([k \in 1..9 |-> Around(BPow2(7 * k))])
              \o Concat([j \in 1..7 |-> Around(BPow2(8 * j))])
              \o << [i \in 1..8 |-> 255], <<254, 255, 255, 255, 255, 255, 255, 255>>, U64(BPow2(63)) >>
Random     == IF "C26_RANDOM" \in DOMAIN IOEnv THEN JsonDeserialize(IOEnv.C26_RANDOM) ELSE <<>>
Vals       == [i \in 1..SmallBound |-> LE(i - 1, 8)] \o Boundaries \o Random
NV         == Len(Vals)
ASSUME \A i \in 1..NV : IsU64(Vals[i])

Trailer == <<170, 1>>
Fill(kind, n) == [i \in 1..n |-> CASE kind = 1 -> 0 [] kind = 2 -> 255 [] kind = 3 -> (i * 37 + 11) % 256]
RawInput(fb, kind, L) == Take(<<fb>> \o Fill(kind, 10), L)

IsBoundary(i) == i > SmallBound /\ i <= SmallBound + Len(Boundaries)
\* Init holds one state per value and per first byte; Next derives the variants (so that TLC's workers share
\* the evaluation): the round trip followed by trailing bytes, the truncations, the other fillings and lengths.
Init == \/ \E i \in 1..NV : c = [m |-> "rt", i |-> i, a |-> 0, b |-> 0]
        \/ \E fb \in 0..255 : c = [m |-> "raw", i |-> fb, a |-> 1, b |-> 0]
Next == \/ /\ c.m = "rt" /\ c.a = 0
           /\ \/ c' = [c EXCEPT !.a = 1]
              \/ /\ IsBoundary(c.i)
                 /\ \E j \in 0..8 : j < VLen(Vals[c.i]) /\ c' = [m |-> "trunc", i |-> c.i, a |-> j, b |-> 0]
        \/ /\ c.m = "raw" /\ c.a = 1 /\ c.b = 0
           /\ \E k \in 1..3, L \in 0..11 : <<k, L>> # <<1, 0>> /\ c' = [c EXCEPT !.a = k, !.b = L]
Spec == Init /\ [][Next]_c

Input(s) == CASE s.m = "rt"    -> VEncode(Vals[s.i]) \o (IF s.a = 1 THEN Trailer ELSE <<>>)
              [] s.m = "raw"   -> RawInput(s.i, s.a, s.b)
              [] s.m = "trunc" -> SubSeq(VEncode(Vals[s.i]), 1, s.a)

Expect(bs) == LET d == VDecode(bs) IN
              IF d.t = "ok" THEN [t |-> "ok", n |-> d.n, val |-> d.v, kinds |-> <<>>]
                            ELSE [t |-> "err", n |-> 0, val |-> <<>>, kinds |-> <<"eof">>]

Scenario(s) ==
  LET rt  == s.m = "rt"
      enc == IF rt THEN VEncode(Vals[s.i]) ELSE <<>>
  IN [ty |-> <<"usize">>, kind |-> s.m, cls |-> IF rt THEN "own-encoding" ELSE s.m,
      v |-> IF rt THEN Vals[s.i] ELSE <<>>, enc |-> enc, hint |-> IF rt THEN VLen(Vals[s.i]) ELSE -1,
      input |-> Input(s), exp |-> Expect(Input(s)), fl |-> <<>>]

Emit == PrintT(<<"REPLAY", ToJson(Scenario(c))>>)

Laws == CASE c.m = "rt" -> /\ RoundTripLaw(Vals[c.i], IF c.a = 1 THEN Trailer ELSE <<>>)
                           /\ LenLaw(Vals[c.i])
          [] c.m = "trunc" -> VDecode(Input(c)).t = "eof"
          [] OTHER -> MinimalLaw(Input(c))
=============================================================================
