----------------------------- MODULE GenSecurity ----------------------------
(* Generators for C25 (see Security.tla).
   EmitL: one line per (blowup, e, g, field encoding, cr) with Conj over every query count 1..MaxQ, the
          field size being the bit length of the encoding's modulus VALUE.
   EmitO: option-set cases — the proof's options p, an accepted list S of 0..2 option tuples drawn from
          a base tuple and its ten one-field variants (queries, blowup, grinding, extension, folding,
          remainder degree, the two batching methods, the two partition parameters) — with the verdict
          InSet(p, S). *)
EXTENDS Security, SequencesExt

CONSTANTS Blowups, Exts, Grindings, FieldBits, CRs, MaxQ,
          OtherBlowups, OtherGrindings     \* the (smaller) grid used for the non-built-in field encodings

VARIABLE case

InitL == case \in [b : Blowups, e : Exts, g : Grindings, fld : BuiltinFlds, cr : CRs]
                 \cup [b : OtherBlowups, e : Exts, g : OtherGrindings, fld : Flds \ BuiltinFlds, cr : CRs]
SpecL == InitL /\ [][UNCHANGED case]_case
EmitL == PrintT(<<"REPLAY", ToJson([b |-> case.b, e |-> case.e, g |-> case.g, cr |-> case.cr,
                                     fld |-> case.fld, src |-> SrcOf(case.fld), mod |-> ModOf(case.fld),
                                     fb |-> FieldBitsOf(case.fld),
                                     bits |-> [i \in 1..MaxQ |-> Conj(case.b, case.e, case.g, i, FieldBitsOf(case.fld), case.cr)]])>>)

Fields == {"q", "b", "g", "e", "fold", "rem", "bc", "bd", "np", "hr"}
\* two valid values per field
Alt(f) == CASE f = "q" -> <<27, 28>> [] f = "b" -> <<8, 16>> [] f = "g" -> <<0, 16>> [] f = "e" -> <<1, 2>>
            [] f = "fold" -> <<4, 8>> [] f = "rem" -> <<31, 63>> [] f = "bc" -> <<0, 1>> [] f = "bd" -> <<0, 2>>
            [] f = "np" -> <<1, 4>> [] f = "hr" -> <<1, 8>>
BaseOpt == [f \in Fields |-> Alt(f)[1]]
Variant(f) == [BaseOpt EXCEPT ![f] = Alt(f)[2]]
Variants == {Variant(f) : f \in Fields}
Pool == {BaseOpt} \cup Variants
OCases == {[p |-> p, S |-> <<>>] : p \in Pool}
          \cup {[p |-> p, S |-> <<x>>] : p \in Pool, x \in Pool}
          \cup {[p |-> p, S |-> <<x, y>>] : p \in Pool, x \in Variants, y \in Pool}
InitO == case \in OCases
SpecO == InitO /\ [][UNCHANGED case]_case
EmitO == PrintT(<<"REPLAY", ToJson([p |-> case.p, S |-> case.S, accept |-> InSet(case.p, case.S)])>>)

(***************************************************************************)
(* Grid cells for the recorder (TLC -simulate picks them, seeded): one parameter per step *)
(***************************************************************************)
\* ("end" is a last step with one value: the simulator evaluates the invariant on every successor, so the
\* complete cell is printed once per behaviour)
CellFields == <<"fld", "b", "cr", "ll", "nc", "w", "fold", "rem", "bc", "bd", "end">>
CellVals(f) == CASE f = "fld" -> Flds
                 [] f = "b" -> {2, 4, 8, 16, 32, 64, 128}
                 [] f = "cr" -> {64, 96, 124, 128}
                 [] f = "ll" -> {3, 4, 5, 6, 8, 10, 11, 13, 16, 20, 22}     \* trace length 2^ll
                 [] f = "nc" -> {1, 2, 3, 10, 100, 1000}                     \* constraints
                 [] f = "w" -> {1, 2, 5, 40, 100, 254}                       \* trace width
                 [] f = "fold" -> {2, 4, 8, 16}
                 [] f = "rem" -> {0, 1, 7, 31, 127, 255}
                 [] f = "bc" -> {0, 1, 2}
                 [] f = "bd" -> {0, 1, 2}
                 [] f = "end" -> {0}
InitK == case = <<>>
NextK == /\ Len(case) < Len(CellFields)
         /\ \E v \in CellVals(CellFields[Len(case) + 1]) : case' = Append(case, v)
SpecK == InitK /\ [][NextK]_case
CellRec(c) == [i \in {CellFields[j] : j \in 1..Len(CellFields)} |->
                 c[CHOOSE j \in 1..Len(CellFields) : CellFields[j] = i]]
\* the cell carries the encoding the specification attaches to its field name
WithField(r) == [k \in DOMAIN r \cup {"src", "mod", "fbits"} |->
                   CASE k = "src" -> SrcOf(r.fld) [] k = "mod" -> ModOf(r.fld) [] k = "fbits" -> FieldBitsOf(r.fld)
                     [] OTHER -> r[k]]
EmitK == Len(case) = Len(CellFields) => PrintT(<<"REPLAY", ToJson(WithField(CellRec(case)))>>)

\* cells that are always recorded: one per field encoding (the other parameters cycle through their
\* values with the position of the encoding) and three corners of the grid
FldSeq == SetToSeq(Flds)
Pick(S, j) == LET q == SetToSeq(S) IN q[(j % Len(q)) + 1]
FixedCells ==
  {[fld |-> FldSeq[j], b |-> Pick(CellVals("b"), j), cr |-> Pick(CellVals("cr"), j), ll |-> Pick(CellVals("ll"), 2 * j),
    nc |-> Pick(CellVals("nc"), j), w |-> Pick(CellVals("w"), j), fold |-> Pick(CellVals("fold"), j),
    rem |-> Pick(CellVals("rem"), j), bc |-> j % 3, bd |-> (j \div 3) % 3, end |-> 0] : j \in 1..Len(FldSeq)}
  \cup {[fld |-> "f62", b |-> 2, cr |-> 96, ll |-> 3, nc |-> 1, w |-> 1, fold |-> 2, rem |-> 0, bc |-> 0, bd |-> 0, end |-> 0],
        [fld |-> "f128", b |-> 128, cr |-> 128, ll |-> 22, nc |-> 1000, w |-> 255, fold |-> 16, rem |-> 255, bc |-> 1, bd |-> 2, end |-> 0],
        [fld |-> "f64", b |-> 4, cr |-> 128, ll |-> 20, nc |-> 100, w |-> 2, fold |-> 2, rem |-> 127, bc |-> 0, bd |-> 0, end |-> 0],
        \* a hasher with collision resistance 64 (custom Hasher): the cap binds below 80 bits of query security
        [fld |-> "f128", b |-> 8, cr |-> 64, ll |-> 10, nc |-> 10, w |-> 2, fold |-> 4, rem |-> 7, bc |-> 0, bd |-> 0, end |-> 0],
        [fld |-> "f64", b |-> 16, cr |-> 64, ll |-> 12, nc |-> 10, w |-> 2, fold |-> 2, rem |-> 0, bc |-> 1, bd |-> 1, end |-> 0]}
InitF == case \in FixedCells
SpecF == InitF /\ [][UNCHANGED case]_case
EmitF == PrintT(<<"REPLAY", ToJson(WithField(case))>>)

AllBlowups == {2, 4, 8, 16, 32, 64, 128}
AllExts == {1, 2, 3}
AllGrindings == 0..32
SomeGrindings == {0, 1, 7, 16, 31, 32}
AllFieldBits == {62, 64, 128}
FewGrindings == {0, 16, 32}
SomeBlowups == {2, 8, 128}
AllCRs == {64, 96, 124, 128}     \* 64: a hasher with a 128-bit digest (custom Hasher implementations)
=============================================================================
