----------------------------- MODULE GenSecurity ----------------------------
(* Generators for C25 (see Security.tla).
   EmitL: one line per (blowup, e, g, fb, cr) with Conj over every query count 1..MaxQ.
   EmitO: option-set cases — the proof's options p, an accepted list S of 0..2 option tuples drawn from
          a base tuple and its ten one-field variants (queries, blowup, grinding, extension, folding,
          remainder degree, the two batching methods, the two partition parameters) — with the verdict
          InSet(p, S). *)
EXTENDS Security

CONSTANTS Blowups, Exts, Grindings, FieldBits, CRs, MaxQ

VARIABLE case

InitL == case \in [b : Blowups, e : Exts, g : Grindings, fb : FieldBits, cr : CRs]
SpecL == InitL /\ [][UNCHANGED case]_case
EmitL == PrintT(<<"REPLAY", ToJson([b |-> case.b, e |-> case.e, g |-> case.g, fb |-> case.fb, cr |-> case.cr,
                                     bits |-> [i \in 1..MaxQ |-> Conj(case.b, case.e, case.g, i, case.fb, case.cr)]])>>)

Fields == {"q", "b", "g", "e", "fold", "rem", "bc", "bd", "np", "hr"}
\* two valid values per field
Alt(f) == CASE f = "q" -> <<27, 28>> [] f = "b" -> <<8, 16>> [] f = "g" -> <<0, 16>> [] f = "e" -> <<1, 2>>
            [] f = "fold" -> <<4, 8>> [] f = "rem" -> <<31, 63>> [] f = "bc" -> <<0, 1>> [] f = "bd" -> <<0, 2>>
            [] f = "np" -> <<1, 4>> [] f = "hr" -> <<1, 8>>
BaseOpt == [f \in Fields |-> Alt(f)[1]]
Variant(f) == [BaseOpt EXCEPT ![f] = Alt(f)[2]]
Variants == {Variant(f) : f \in Fields}
Pool == {BaseOpt} \cup Variants
OCases == {[p |-> p, S |-> <<>>] : p \in Pool}
          \cup {[p |-> p, S |-> <<x>>] : p \in Pool, x \in Pool}
          \cup {[p |-> p, S |-> <<x, y>>] : p \in Pool, x \in Variants, y \in Pool}
InitO == case \in OCases
SpecO == InitO /\ [][UNCHANGED case]_case
EmitO == PrintT(<<"REPLAY", ToJson([p |-> case.p, S |-> case.S, accept |-> InSet(case.p, case.S)])>>)

(***************************************************************************)
(* Grid cells for the recorder (TLC -simulate picks them, seeded): one parameter per step *)
(***************************************************************************)
\* ("end" is a last step with one value: the simulator evaluates the invariant on every successor, so the
\* complete cell is printed once per behaviour)
CellFields == <<"b", "fb", "cr", "ll", "nc", "w", "fold", "rem", "bc", "bd", "end">>
CellVals(f) == CASE f = "b" -> {2, 4, 8, 16, 32, 64, 128}
                 [] f = "fb" -> {62, 64, 128}
                 [] f = "cr" -> {96, 124, 128}
                 [] f = "ll" -> {3, 4, 5, 6, 8, 10, 11, 13, 16, 20, 22}     \* trace length 2^ll
                 [] f = "nc" -> {1, 2, 3, 10, 100, 1000}                     \* constraints
                 [] f = "w" -> {1, 2, 5, 40, 100, 255}                       \* trace width
                 [] f = "fold" -> {2, 4, 8, 16}
                 [] f = "rem" -> {0, 1, 7, 31, 127, 255}
                 [] f = "bc" -> {0, 1, 2}
                 [] f = "bd" -> {0, 1, 2}
                 [] f = "end" -> {0}
InitK == case = <<>>
NextK == /\ Len(case) < Len(CellFields)
         /\ \E v \in CellVals(CellFields[Len(case) + 1]) : case' = Append(case, v)
SpecK == InitK /\ [][NextK]_case
EmitK == Len(case) = Len(CellFields) =>
           PrintT(<<"REPLAY", ToJson([i \in {CellFields[j] : j \in 1..Len(CellFields)} |->
                                        case[CHOOSE j \in 1..Len(CellFields) : CellFields[j] = i]])>>)

AllBlowups == {2, 4, 8, 16, 32, 64, 128}
AllExts == {1, 2, 3}
AllGrindings == 0..32
SomeGrindings == {0, 1, 7, 16, 31, 32}
AllFieldBits == {62, 64, 128}
AllCRs == {96, 124, 128}
=============================================================================
