------------------------------ MODULE Degrees ------------------------------
(* C23 (integer part) — declared transition-constraint degrees, minimum blowup factors, the bounds on
   the number of transition exemptions and the number of constraint-composition columns.

   DENOTATION.  A degree descriptor is [base, cycles]: the constraint multiplies `base` trace-column
   polynomials and one periodic-column polynomial per entry of `cycles`.  Over a trace of length L
     * a trace column is a polynomial of degree L - 1 (it interpolates L values),
     * a periodic column of cycle c is a polynomial of degree c - 1 in x^(L/c): degree (L/c)(c-1)
       (spec/air/Periodic.tla checks that against the interpolant itself),
     * the degree of a product of non-zero polynomials over a field is the sum of their degrees,
   so the evaluation degree is ProductDegree(Factors(desc, L)); `EvalDegree` is the formula the
   documentation of TransitionConstraintDegree::get_evaluation_degree states; DocDegree says they
   agree.  For a context (L, list of descriptors, e exemptions):
     divisor degree     L - e                      (spec/air/Divisor.tla)
     CompDegree         max EvalDegree - (L - e)   degree of the constraint composition polynomial
     RequiredCols       ceil((CompDegree + 1) / L) columns of L coefficients each (a polynomial of
                        degree D has D + 1 coefficients), at least 1
     CeBlowup           max MinBlowup; the composition polynomial is interpolated from its values on a
                        domain of CeBlowup * L points, so CompDegree < CeBlowup * L is needed.
   `Accepts` is the documented precondition list of AirContext::set_num_transition_exemptions.

   TLC checks on every context of the universe (design level):
     DocDegree        documented formula = degree of the product
     BlowupSuffices   accepted e  =>  CeBlowup * L > CompDegree
     ColsHold         accepted e  =>  Cols * L >= CompDegree + 1      (Cols = the count the code computes)
     ColsMinimal      ... and one column fewer would not hold it
     ColsFitDomain    ... and Cols <= CeBlowup
   with `Fixed = FALSE` Cols is the count of the tree as it was found (ceil(CompDegree / L)):
   Degrees_found.cfg makes TLC exhibit the lost coefficient (base 2, e = 2, any L).

   GENERATOR.  Every context is one initial state; the always-true invariant Emit prints its scenario:
   per descriptor the evaluation degree and minimum blowup, the constraint evaluation domain size, the
   accept / reject class of AirContext::new for several option blowups, and for every e in
   0 .. L/2 + 2 the accept / reject class of set_num_transition_exemptions and the required number of
   composition columns.  Constructor classes of TransitionConstraintDegree are separate cases. *)
EXTENDS Integers, Sequences, FiniteSets, TLC, Json

CONSTANTS Lens,       \* trace lengths (powers of two >= 8)
          MaxBase,    \* base degrees 1..MaxBase
          PairBases,  \* base degrees used in two-constraint contexts
          Fixed       \* TRUE: column count of the current tree; FALSE: as found

VARIABLES case, phase
vars == <<case, phase>>

(***************************************************************************)
(* Denotation                                                              *)
(***************************************************************************)
Pow2Set == {2 ^ i : i \in 0..20}
IsPow2(x) == x \in Pow2Set
Log2(n) == CHOOSE k \in 0..20 : 2 ^ k = n
RECURSIVE NextPow2From(_, _)
NextPow2From(n, p) == IF p >= n THEN p ELSE NextPow2From(n, 2 * p)
NextPow2(n) == NextPow2From(n, 1)            \* usize::next_power_of_two: 0 -> 1, 1 -> 1
Max2(a, b) == IF a > b THEN a ELSE b
CeilDiv(a, b) == (a + b - 1) \div b

RECURSIVE SumSeq(_)
SumSeq(s) == IF s = <<>> THEN 0 ELSE Head(s) + SumSeq(Tail(s))
RECURSIVE MaxSeq(_)
MaxSeq(s) == IF s = <<>> THEN 0 ELSE Max2(Head(s), MaxSeq(Tail(s)))

Desc(b, cs) == [base |-> b, cycles |-> cs]

TraceDeg(L) == L - 1
PeriodicDeg(L, c) == (L \div c) * (c - 1)
\* degrees of the factors of the constraint: `base` trace polynomials, one periodic polynomial per cycle
Factors(d, L) == [i \in 1..d.base |-> TraceDeg(L)] \o [k \in 1..Len(d.cycles) |-> PeriodicDeg(L, d.cycles[k])]
ProductDegree(fs) == SumSeq(fs)

\* the documented formula: b(n-1) + SUM n(c_i - 1)/c_i
EvalDegree(d, L) == d.base * (L - 1) + SumSeq([k \in 1..Len(d.cycles) |-> (L * (d.cycles[k] - 1)) \div d.cycles[k]])

\* TransitionConstraintDegree::min_blowup_factor: each periodic column counts like a trace column
MinBlowup(d) == Max2(NextPow2(d.base + Len(d.cycles) - 1), 2)

\* a context: L, descriptors of the main and of the auxiliary segment
All(c) == c.main \o c.aux
CeBlowup(c) == MaxSeq([i \in 1..Len(All(c)) |-> MinBlowup(All(c)[i])])
CeDomain(c) == c.L * CeBlowup(c)
MaxEval(c) == MaxSeq([i \in 1..Len(All(c)) |-> EvalDegree(All(c)[i], c.L)])

\* AirContext::set_num_transition_exemptions, "# Panics"
Accepts(c, e) ==
  /\ e > 0
  /\ e <= c.L \div 2 + 1
  /\ \A i \in 1..Len(All(c)) : e <= (CeDomain(c) - 1) + c.L - EvalDegree(All(c)[i], c.L)

DivisorDegree(c, e) == c.L - e
CompDegree(c, e) == MaxEval(c) - DivisorDegree(c, e)
RequiredCols(c, e) == Max2(CeilDiv(CompDegree(c, e) + 1, c.L), 1)

\* what AirContext::num_constraint_composition_columns computes
CodeCols(c, e) == IF Fixed THEN Max2(CeilDiv(MaxEval(c) - DivisorDegree(c, e) + 1, c.L), 1)
                           ELSE Max2(CeilDiv(MaxEval(c) - DivisorDegree(c, e), c.L), 1)

\* AirContext::new / new_multi_segment accept an option blowup iff it reaches the ce blowup
NewAccepts(c, blowup) == blowup >= CeBlowup(c)

(***************************************************************************)
(* Universe                                                                *)
(***************************************************************************)
CyclesOf(L) == {2 ^ k : k \in 1..Log2(L)}
CycleSeqs(L) == {<<>>} \cup {<<c>> : c \in CyclesOf(L)} \cup {<<c1, c2>> : c1 \in CyclesOf(L), c2 \in CyclesOf(L)}
Descs(L) == {Desc(b, cs) : b \in 1..MaxBase, cs \in CycleSeqs(L)}
\* reduced set for the contexts with two constraints (two main, or main + auxiliary)
PairCycles(L) == {<<>>, <<2>>, <<L>>, <<2, L>>, <<L \div 2, L \div 2>>}
PairDescs(L) == {Desc(b, cs) : b \in PairBases, cs \in PairCycles(L)}

Ctx(L, m, a) == [t |-> "ctx", L |-> L, main |-> m, aux |-> a]
Contexts ==
  UNION {{Ctx(L, <<d>>, <<>>) : d \in Descs(L)} : L \in Lens}
  \cup UNION {{Ctx(L, <<d1, d2>>, <<>>) : d1 \in PairDescs(L), d2 \in PairDescs(L)} : L \in Lens}
  \cup UNION {{Ctx(L, <<d1>>, <<d2>>) : d1 \in PairDescs(L), d2 \in PairDescs(L)} : L \in Lens}

\* constructor argument classes of TransitionConstraintDegree::{new, with_cycles} ("# Panics")
CtorOk(b, cs) == b > 0 /\ \A k \in 1..Len(cs) : cs[k] >= 2 /\ IsPow2(cs[k])
CtorCases ==
  {[t |-> "ctor", base |-> b, cycles |-> cs] :
     b \in {0, 1, 3}, cs \in {<<>>, <<2>>, <<0>>, <<1>>, <<3>>, <<6>>, <<4, 8>>, <<4, 1>>, <<12, 4>>, <<64, 64, 64>>}}

Init == phase = 0 /\ case \in Contexts \cup CtorCases
\* TLC computes initial states in one thread: every case takes one step, and the invariants (and the
\* scenario emission) are evaluated on the state after it, by the workers
Next == phase = 0 /\ phase' = 1 /\ UNCHANGED case
Spec == Init /\ [][Next]_vars

(***************************************************************************)
(* Design-level invariants                                                 *)
(***************************************************************************)
IsCtx == case.t = "ctx"
Es(c) == 0..(c.L \div 2 + 2)

DocDegree == phase = 1 /\ IsCtx => \A i \in 1..Len(All(case)) : EvalDegree(All(case)[i], case.L) = ProductDegree(Factors(All(case)[i], case.L))
BlowupPow2 == phase = 1 /\ IsCtx => \A i \in 1..Len(All(case)) : IsPow2(MinBlowup(All(case)[i])) /\ MinBlowup(All(case)[i]) >= 2
\* the default number of exemptions (1) is always acceptable
DefaultAccepted == phase = 1 /\ IsCtx => Accepts(case, 1)
BlowupSuffices == phase = 1 /\ IsCtx => \A e \in Es(case) : Accepts(case, e) => CeDomain(case) > CompDegree(case, e)
ColsHold == phase = 1 /\ IsCtx => \A e \in Es(case) : Accepts(case, e) => CodeCols(case, e) * case.L >= CompDegree(case, e) + 1
ColsMinimal == phase = 1 /\ IsCtx => \A e \in Es(case) : Accepts(case, e) =>
                    (CodeCols(case, e) = 1 \/ (CodeCols(case, e) - 1) * case.L < CompDegree(case, e) + 1)
ColsFitDomain == phase = 1 /\ IsCtx => \A e \in Es(case) : Accepts(case, e) => CodeCols(case, e) <= CeBlowup(case)
ColsAsRequired == phase = 1 /\ IsCtx => \A e \in Es(case) : Accepts(case, e) => CodeCols(case, e) = RequiredCols(case, e)

(***************************************************************************)
(* Scenario emission                                                       *)
(***************************************************************************)
DescJson(d, L) == [base |-> d.base, cycles |-> d.cycles, eval |-> EvalDegree(d, L), minb |-> MinBlowup(d)]
\* option blowups handed to AirContext::new: the ce blowup itself, twice it, half of it (rejected unless < 2)
OptBlowups(c) == LET b == CeBlowup(c) IN
  << [b |-> b, ok |-> TRUE], [b |-> 2 * b, ok |-> TRUE] >>
  \o (IF b >= 4 THEN << [b |-> b \div 2, ok |-> FALSE] >> ELSE <<>>)
ExRow(c, e) == [e |-> e, ok |-> Accepts(c, e),
                cols |-> IF Accepts(c, e) THEN RequiredCols(c, e) ELSE 0,
                deg |-> IF Accepts(c, e) THEN CompDegree(c, e) ELSE 0]
Scenario(c) ==
  IF c.t = "ctor" THEN [t |-> "ctor", base |-> c.base, cycles |-> c.cycles, ok |-> CtorOk(c.base, c.cycles)]
  ELSE [t |-> "ctx", L |-> c.L,
        main |-> [i \in 1..Len(c.main) |-> DescJson(c.main[i], c.L)],
        aux |-> [i \in 1..Len(c.aux) |-> DescJson(c.aux[i], c.L)],
        ceb |-> CeBlowup(c), ce |-> CeDomain(c), opts |-> OptBlowups(c),
        ex |-> [k \in 1..(c.L \div 2 + 3) |-> ExRow(c, k - 1)]]
Emit == phase = 1 => PrintT(<<"REPLAY", ToJson(Scenario(case))>>)
=============================================================================
