---------------------------- MODULE MCTransEval ----------------------------
EXTENDS TransEval
TEQuick == {<<257, 8>>, <<257, 16>>, <<257, 64>>, <<40961, 32>>, <<40961, 128>>, <<193, 16>>}
\* (<<257, 128>> is NOT a case: the constraint evaluation domain 2L = 256 would be the whole multiplicative
\*  group of F_257, so its coset contains the trace domain and the divisor vanishes on evaluation points)
TEThorough == TEQuick \cup {<<257, 32>>, <<40961, 8>>, <<40961, 64>>, <<40961, 256>>, <<40961, 1024>>, <<97, 8>>, <<97, 16>>, <<193, 32>>}
\* the evaluation coset must be disjoint from the trace domain: its subgroup must be a proper subgroup
ASSUME \A pl \in TEThorough : 2 * pl[2] < pl[1] - 1
=============================================================================
