------------------------------ MODULE Boundary ------------------------------
(* C22 — boundary constraints vanish exactly on asserted cells; coefficient assignment does not depend
   on the order of the assertion list.

   DENOTATION (over the toy fields of FieldP; g = RootOfUnity(P, log2 L)).
   An assertion is [k, col, first, stride, n, vals] (the record of spec/air/Assertions.tla — C21 —
   plus the asserted values: one value, or n values for a sequence).  For trace length L
       StepSeq(a)        its asserted steps in increasing order (Assertions!Steps as a sequence)
       ValAt(a, j)       the value asserted at the j-th of them
       a VALID set       every assertion fits L and its column, and no two assertions of one segment
                         share a cell (Assertions!OverlapAt, the predicate C21 verifies)
       value polynomial  b_a = THE polynomial of degree < #steps with b_a(g^s_j) = ValAt(a, j)
                         (a constant for single and periodic assertions)
       constraint        C_a(x, t) = t - b_a(x):  at x = g^s_j it is zero iff t = ValAt(a, j)
       divisor           Z_a(x) = PROD_j (x - g^s_j)   (Divisor!ZSteps): zero exactly on the asserted
                         points, degree #steps
       group             assertions with the same step set share a divisor; the group's evaluation on a
                         row `state` at x is  (SUM_a cc_a * C_a(x, state[col_a])) / Z(x)
   BAt computes b_a(x) through the inverse DFT of the values over the #steps-th roots of unity and the
   substitution x -> x * g^(-first); ValueInterp (TLC, every case) checks it against the definition
   b_a(g^s_j) = ValAt(a, j); DocDivisor checks the documented closed form x^k - g^(first*k) = Z_a.

   WHICH composition coefficient an assertion receives is not fixed by the property — only that it is
   the same for every ordering of the list.  So the generator (mechanism A) emits everything that does
   not depend on the assignment: asserted steps / points / values, the zero set of every divisor over
   the whole trace domain, divisor values on the LDE coset and at out-of-domain points, C_a(x, state)
   at out-of-domain points.  The harness matches every real constraint to the assertion with the same
   column whose steps are the zero set of the constraint's group divisor, reports the observed
   assignment (assertion -> index of the coefficient found in BoundaryConstraint::cc()) for each
   permutation of the list, the value of every real group's evaluate_at, and the composition trace of
   the prover's DefaultConstraintEvaluator (transition constraints identically zero; LDE blowup 1x, 2x,
   4x, 8x the constraint evaluation blowup) on the points of the constraint evaluation domain; TraceBoundary.tla
   (mechanism B) validates those records: the assignment is a bijection, identical for all
   permutations, groups are exactly the classes of equal step sets, and every group value equals the
   definition above.

   FAMILIES.  pair   L = 8 over F_97: every non-overlapping pair of shapes on one column, every pair
                     of shapes on two columns (equal shapes included: one group, two constraints),
                     every pair main/auxiliary; E = base, quadratic, cubic by turns
              each   L = 16 over F_97 and F_257: every shape with a companion
              rand   L = 16, 32 over F_257, F_193: seeded sets of up to 6 main + 3 auxiliary assertions
              long   L = 128..512 over F_40961: sequences of 64..256 values, zero and non-zero first step *)
EXTENDS Divisor, SequencesExt

CONSTANTS Fams,      \* subset of {"pair", "each", "rand", "long"}
          NRand,     \* seeded sets per (P, L) of family rand
          LongLens,  \* trace lengths of family long
          AllAux     \* TRUE: every (main shape, auxiliary shape) pair of family pair; FALSE: half of them

VARIABLES case, built      \* the case descriptor and the assertion set built from it
vars == <<case, built>>

\* (the instance parameters only size the universes of the C21 generators, which are not used here: kept minimal)
A == INSTANCE Assertions WITH LMax <- 2, Cols <- {0}, TestLens <- {}, SetLen <- 2, SetWidth <- 1

(***************************************************************************)
(* assertions with values                                                  *)
(***************************************************************************)
Pow2s(lo, hi) == {2 ^ k : k \in lo..hi}
Shape(k, f, t, n) == [k |-> k, first |-> f, stride |-> t, n |-> n]
\* every shape that fits a trace of length L (a one-value sequence is a single assertion: left out)
Shapes(L) ==
  {Shape("single", s, 0, 1) : s \in 0..(L - 1)}
  \cup UNION {{Shape("periodic", f, t, 1) : f \in 0..(t - 1)} : t \in Pow2s(1, Log2(L))}
  \cup UNION {{Shape("sequence", f, t, L \div t) : f \in 0..(t - 1)} : t \in Pow2s(1, Log2(L) - 1)}
KindNo(a) == CASE a.k = "single" -> 0 [] a.k = "periodic" -> 1 [] a.k = "sequence" -> 2
SKey(a) == <<KindNo(a), a.stride, a.first>>
LexLess(x, y) == \E i \in 1..3 : x[i] < y[i] /\ \A j \in 1..(i - 1) : x[j] = y[j]
ShapeSeq(L) == SetToSortSeq(Shapes(L), LAMBDA a, b : LexLess(SKey(a), SKey(b)))

\* an assertion of the given shape on column col whose values are drawn from stream st (degree dv)
NVals(sh) == IF sh.k = "sequence" THEN sh.n ELSE 1
Mk(P, sh, col, dv, st) ==
  [k |-> sh.k, col |-> col, first |-> sh.first, stride |-> sh.stride, n |-> sh.n,
   vals |-> Mat([j \in 1..NVals(sh) |-> RElem(P, dv, st, 7 * col + j)], NVals(sh))]

NumSteps(a, L) == A!NumSteps(a, L)
StepSeq(a, L) == IF a.k = "single" THEN <<a.first>>
                 ELSE Mat([j \in 1..NumSteps(a, L) |-> a.first + (j - 1) * a.stride], NumSteps(a, L))
ValAt(a, j) == IF a.k = "sequence" THEN a.vals[j] ELSE a.vals[1]

\* validity of a segment's list for width w
ValidList(as, w, L) ==
  /\ \A i \in 1..Len(as) : as[i].col < w /\ A!Constructible(as[i]) /\ A!Fits(as[i], L)
  /\ \A i \in 1..Len(as) : \A j \in (i + 1)..Len(as) : ~A!OverlapAt(as[i], as[j], L)

(***************************************************************************)
(* value polynomial                                                        *)
(***************************************************************************)
Lift(v, d) == IF Len(v) = d THEN v ELSE Mat([i \in 1..d |-> IF i <= Len(v) THEN v[i] ELSE 0], d)

\* coefficients (extension tuples of the values' degree) of the interpolant of vals over the n-th roots
\* of unity h^0 .. h^(n-1):  q_j = n^-1 SUM_i vals_i h^(-ij)
ICoef(P, vals) ==
  LET n == Len(vals)
      dv == Len(vals[1])
      hinv == FInv(P, RootOfUnity(P, Log2(n)))
      ninv == FInv(P, n % P)
      pw == Mat([k \in 1..n |-> FPow(P, hinv, k - 1)], n)
      Co(j, t) == FoldLeftDomain(LAMBDA acc, i : (acc + vals[i][t] * pw[(((i - 1) * j) % n) + 1]) % P, 0, vals)
  IN Mat([j \in 1..n |-> Mat([t \in 1..dv |-> FMul(P, ninv, Co(j - 1, t))], dv)], n)

\* Horner with extension coefficients at an extension point
EvalE(P, q, y) == FoldRight(LAMBDA cj, acc : EAdd(P, Lift(cj, Len(y)), EMul(P, y, acc)), q, EZero(Len(y)))

\* b_a(x) for each x of a sequence of extension points (all of one degree)
BAtAll(P, L, a, xs) ==
  IF a.k # "sequence" THEN Mat([t \in 1..Len(xs) |-> Lift(a.vals[1], Len(xs[t]))], Len(xs))
  ELSE LET q == ICoef(P, a.vals)
           shift == FPow(P, FInv(P, G(P, L)), a.first)          \* g^(-first)
       IN Mat([t \in 1..Len(xs) |-> EvalE(P, q, EMulBase(P, xs[t], shift))], Len(xs))

(***************************************************************************)
(* cases                                                                   *)
(***************************************************************************)
\* a case is a small descriptor; Build(case) is the assertion set
PC(i, j, v) == [fam |-> "pair", P |-> 97, L |-> 8, i |-> i, j |-> j, v |-> v]
PairCases ==
  LET L == 8
      S == ShapeSeq(L)
      n == Len(S)
      ok(i, j) == ~A!OverlapAt(Mk(97, S[i], 0, 1, 1), Mk(97, S[j], 0, 1, 1), L)
      IJ == (1..n) \X (1..n)
  IN {PC(p[1], p[2], "same") : p \in {q \in IJ : q[1] < q[2] /\ ok(q[1], q[2])}}
     \cup {PC(p[1], p[2], "cols") : p \in {q \in IJ : q[1] <= q[2]}}
     \cup {PC(p[1], p[2], "aux") : p \in {q \in IJ : AllAux \/ (q[1] + q[2]) % 2 = 0}}
EachCases ==
  {[fam |-> "each", P |-> p, L |-> 16, i |-> i] : p \in {97, 257}, i \in 1..Len(ShapeSeq(16))}
RandCases ==
  {[fam |-> "rand", P |-> pl[1], L |-> pl[2], j |-> j] : pl \in {<<257, 16>>, <<257, 32>>, <<193, 16>>, <<193, 32>>}, j \in 1..NRand}
LongCases ==
  {[fam |-> "long", P |-> 40961, L |-> q[1], n |-> q[2], j |-> q[3]] :
      q \in {r \in LongLens \X {64, 128, 256} \X {1, 2} : r[2] * 2 <= r[1]}}

Cases == (IF "pair" \in Fams THEN PairCases ELSE {}) \cup (IF "each" \in Fams THEN EachCases ELSE {})
         \cup (IF "rand" \in Fams THEN RandCases ELSE {}) \cup (IF "long" \in Fams THEN LongCases ELSE {})
\* extension degree of E for a case
DegOf(c) == CASE c.fam = "pair" -> 1 + ((c.i + 2 * c.j) % 3)
              [] c.fam = "each" -> 1 + (c.i % 3)
              [] c.fam = "rand" -> 1 + (c.j % 3)
              [] c.fam = "long" -> 1 + (c.j % 2)

\* greedy seeded set: candidates are tried in turn and kept when they do not overlap what is there
RECURSIVE Greedy(_, _, _, _)
Greedy(cands, i, acc, L) ==
  IF i > Len(cands) THEN acc
  ELSE IF \A k \in 1..Len(acc) : ~A!OverlapAt(acc[k], cands[i], L)
         THEN Greedy(cands, i + 1, Append(acc, cands[i]), L)
         ELSE Greedy(cands, i + 1, acc, L)

\* [main, aux, mw, aw]
BuildPair(c, P, L, d) ==
  LET S == ShapeSeq(L)
      st == Stream(500 + c.i, c.j)
  IN IF c.v = "same" THEN [main |-> <<Mk(P, S[c.i], 0, 1, st), Mk(P, S[c.j], 0, 1, st + 1)>>, aux |-> <<>>, mw |-> 1, aw |-> 0]
     ELSE IF c.v = "cols" THEN [main |-> <<Mk(P, S[c.i], 0, 1, st), Mk(P, S[c.j], 1, 1, st + 1)>>, aux |-> <<>>, mw |-> 2, aw |-> 0]
     ELSE [main |-> <<Mk(P, S[c.i], 1, 1, st)>>, aux |-> <<Mk(P, S[c.j], 0, d, st + 1)>>, mw |-> 2, aw |-> 1]
BuildEach(c, P, L, d) ==
  LET S == ShapeSeq(L)
      st == Stream(520 + c.i, P)
  IN IF c.i % 2 = 0
       THEN [main |-> <<Mk(P, S[c.i], 0, 1, st), Mk(P, Shape("single", 0, 0, 1), 1, 1, st + 1)>>, aux |-> <<>>, mw |-> 2, aw |-> 0]
       ELSE [main |-> <<Mk(P, Shape("single", L - 1, 0, 1), 2, 1, st + 1)>>, aux |-> <<Mk(P, S[c.i], 1, d, st)>>, mw |-> 3, aw |-> 2]
BuildRand(c, P, L, d) ==
  LET S == ShapeSeq(L)
      st == Stream(540 + L, c.j + P)
      mw == 3  aw == 2
      mc == Mat([k \in 1..8 |-> Mk(P, S[1 + (Rnd(st, k) % Len(S))], Rnd(st, 50 + k) % mw, 1, st + k)], 8)
      ac == Mat([k \in 1..4 |-> Mk(P, S[1 + (Rnd(st, 20 + k) % Len(S))], Rnd(st, 70 + k) % aw, d, st + 20 + k)], 4)
      m == Greedy(mc, 1, <<>>, L)
      a == IF c.j % 3 = 0 THEN <<>> ELSE Greedy(ac, 1, <<>>, L)
  IN [main |-> m, aux |-> a, mw |-> mw, aw |-> IF a = <<>> THEN 0 ELSE aw]
BuildLong(c, P, L, d) ==
  LET t == L \div c.n                 \* stride of an n-value sequence
      st == Stream(560 + c.n, L + c.j)
      f1 == IF c.j = 1 THEN 0 ELSE 1 + (Rnd(st, 1) % (t - 1))
      seq(col, f, dv, s) == Mk(P, Shape("sequence", f, t, c.n), col, dv, s)
  IN [main |-> <<seq(0, f1, 1, st), seq(1, f1, 1, st + 1), Mk(P, Shape("single", (f1 + 1) % L, 0, 1), 0, 1, st + 2),
                 Mk(P, Shape("periodic", (f1 + 1) % t, t, 1), 2, 1, st + 3)>>,
      aux |-> <<seq(0, (t - 1) - f1, d, st + 4)>>, mw |-> 3, aw |-> 1]
Build(c) ==
  CASE c.fam = "pair" -> BuildPair(c, c.P, c.L, DegOf(c))
    [] c.fam = "each" -> BuildEach(c, c.P, c.L, DegOf(c))
    [] c.fam = "rand" -> BuildRand(c, c.P, c.L, DegOf(c))
    [] c.fam = "long" -> BuildLong(c, c.P, c.L, DegOf(c))

\* TLC computes initial states in one thread; the assertion set is therefore built in the single step
\* every case takes (steps are distributed over the workers) and the invariants speak about built cases
NotBuilt == <<>>
Init == case \in Cases /\ built = NotBuilt
Next == built = NotBuilt /\ built' = Build(case) /\ UNCHANGED case
Spec == Init /\ [][Next]_vars
Built == built # NotBuilt

(***************************************************************************)
(* design-level invariants                                                 *)
(***************************************************************************)
Valid == Built => LET b == built IN
  /\ Len(b.main) >= 1
  /\ ValidList(b.main, b.mw, case.L)
  /\ ValidList(b.aux, b.aw, case.L)

AllA(b) == b.main \o b.aux
\* the value polynomial takes the asserted values at the asserted points
ValueInterp == Built =>
  LET b == built  L == case.L  P == case.P  dom == TraceDomain(P, L) IN
  \A i \in 1..Len(AllA(b)) :
    LET a == AllA(b)[i]
        ss == StepSeq(a, L)
        dv == Len(a.vals[1])
        got == BAtAll(P, L, a, Mat([j \in 1..Len(ss) |-> EFromBase(dv, dom[ss[j] + 1])], Len(ss)))
    IN \A j \in 1..Len(ss) : got[j] = ValAt(a, j)
\* the documented closed form of the divisor is the product over the asserted points (sampled points
\* for long step lists)
DocDivisor == Built =>
  LET b == built  L == case.L  P == case.P  dom == TraceDomain(P, L) IN
  \A i \in 1..Len(AllA(b)) :
    LET a == AllA(b)[i]
        ss == StepSeq(a, L)
        pts == IF L <= 32 THEN {<<v>> : v \in 0..(IF P < 200 THEN P - 1 ELSE 60)} \cup {<<3, 1>>, <<5, 0, 2>>}
                          ELSE {<<0>>, <<1>>, <<Gen(P)>>, <<dom[2]>>, <<7, 9>>}
    IN \A x \in pts : ZSteps(P, dom, ss, x) = DocAssertionForm(P, L, a.first, Len(ss), x)

(***************************************************************************)
(* scenario                                                                *)
(***************************************************************************)
JE(e) == IF Len(e) = 1 THEN e[1] ELSE e
JP(p) == [i \in 1..Len(p) |-> JE(p[i])]
AJson(a) == [k |-> a.k, col |-> a.col, first |-> a.first, stride |-> a.stride, vals |-> JP(a.vals)]

\* permutations of 1..n handed to the real constructor: identity, reverse, rotation / seeded shuffle
Perms(n, st) ==
  LET id == [i \in 1..n |-> i]
      rev == [i \in 1..n |-> n + 1 - i]
      rot == [i \in 1..n |-> (i % n) + 1]
      \* seeded: sort the indexes by a random key
      key == [i \in 1..n |-> Rnd(st, 900 + i) * 64 + i]
      shuf == SetToSortSeq(1..n, LAMBDA x, y : key[x] < key[y])
  IN IF n <= 2 THEN <<id, rev>> ELSE <<id, rev, rot, shuf>>

\* distinct non-zero elements of E
CCs(P, d, n, st) ==
  \* first coordinates 1 + (r + 31 i mod P-1): distinct for i < P - 1 because gcd(31, P - 1) = 1
  LET r == Rnd(st, 300) % (P - 1) IN
  Mat([i \in 1..n |-> LET e == RElem(P, d, st, 300 + i)
                      IN [t \in 1..d |-> IF t = 1 THEN 1 + ((r + 31 * i) % (P - 1)) ELSE e[t]]], n)
Distinct(s) == \A i \in 1..Len(s) : \A j \in (i + 1)..Len(s) : s[i] # s[j]

Scenario(c) ==
  LET P == c.P  L == c.L  d == DegOf(c)
      b == built
      nm == Len(b.main)  na == Len(b.aux)
      st == Stream(590, L + nm + 7 * na + (CASE c.fam = "pair" -> c.i * 31 + c.j [] c.fam = "each" -> c.i [] OTHER -> c.j))
      dom == TraceDomain(P, L)
      w2 == RootOfUnity(P, Log2(2 * L))
      ncos == IF L <= 32 THEN 2 * L ELSE 12
      \* LDE coset points Gen * w^i, w the 2L-th root (all of them for small L, a seeded sample for long
      \* traces); with blowup 2 these are the points of the constraint evaluation domain, cidx their steps
      cidx == Mat([i \in 1..ncos |-> IF L <= 32 THEN i - 1 ELSE Rnd(st, 100 + i) % (2 * L)], ncos)
      coset == Mat([i \in 1..ncos |-> FMul(P, Gen(P), FPow(P, w2, cidx[i]))], ncos)
      cl == Mat([i \in 1..ncos |-> Lift(<<coset[i]>>, d)], ncos)
      \* out-of-domain points in E: a coset point (never on the trace domain) and a seeded one
      ood == IF d = 1 THEN << <<coset[2]>>, <<coset[ncos]>> >>
             ELSE << Lift(<<coset[2]>>, d), [t \in 1..d |-> IF t = 2 THEN 1 + (Rnd(st, 5) % (P - 1)) ELSE Rnd(st, 5 + t) % P] >>
      allx == ood \o cl
      mstate == Mat([k \in 1..b.mw |-> RElem(P, d, st, 400 + k)], b.mw)
      astate == Mat([k \in 1..b.aw |-> RElem(P, d, st, 420 + k)], b.aw)
      \* an execution trace for the prover's constraint evaluator: every column is a sparse polynomial
      \* (4 terms) T; the column holds T(g^s), and T is known at every coset point
      TPoly(seg, col, dv) == Mat([t \in 1..4 |-> [pos |-> Rnd(st, 600 + 40 * seg + 4 * col + t) % L,
                                                 val |-> RElem(P, dv, st, 700 + 40 * seg + 4 * col + t)]], 4)
      TAt(tp, x, dv) == LET RECURSIVE S(_)
                            S(t) == IF t > Len(tp) THEN EZero(dv) ELSE EAdd(P, EMulBase(P, tp[t].val, FPow(P, x, tp[t].pos)), S(t + 1))
                        IN S(1)
      mtp == Mat([k \in 1..b.mw |-> TPoly(0, k, 1)], b.mw)
      atp == Mat([k \in 1..b.aw |-> TPoly(1, k, d)], b.aw)
      cc == CCs(P, d, nm + na, st)
      Row(a, state, tps, dv) ==
        LET ss == StepSeq(a, L)
            bx == BAtAll(P, L, a, allx)
            no == Len(ood)
        IN [a |-> AJson(a), steps |-> ss,
            xs |-> [j \in 1..Len(ss) |-> dom[ss[j] + 1]],
            want |-> [j \in 1..Len(ss) |-> JE(ValAt(a, j))],
            zc |-> [i \in 1..ncos |-> ZSteps(P, dom, ss, <<coset[i]>>)[1]],
            zx |-> [t \in 1..no |-> JE(ZSteps(P, dom, ss, ood[t]))],
            \* C_a(x_t, state[col]) = state[col] - b_a(x_t)
            num |-> [t \in 1..no |-> JE(ESub(P, state[a.col + 1], bx[t]))],
            \* C_a on the coset with the trace polynomial of the column: T(x_i) - b_a(x_i)
            cnum |-> [i \in 1..ncos |-> JE(ESub(P, Lift(TAt(tps[a.col + 1], coset[i], dv), d), bx[no + i]))]]
  IN IF Distinct(cc)
       THEN [P |-> P, d |-> d, L |-> L, fam |-> c.fam, mw |-> b.mw, aw |-> b.aw,
             main |-> [i \in 1..nm |-> Row(b.main[i], mstate, mtp, 1)],
             aux |-> [i \in 1..na |-> Row(b.aux[i], astate, atp, d)],
             mperms |-> Perms(nm, st), aperms |-> Perms(na, st + 1),
             cc |-> JP(cc), tdom |-> dom, coset |-> coset, cidx |-> cidx, ood |-> JP(ood),
             \* option (LDE) blowups for the prover's evaluator: 1x, 2x, 4x, 8x the constraint evaluation
             \* blowup (2: every declared degree is 1) as far as the field has roots of unity; the constraint
             \* evaluation domain — hence every expected value — is the same for all of them
             blowups |-> SelectSeq(<<2, 4, 8, 16>>, LAMBDA bl : L * bl <= 2 ^ TwoAdic(P)),
             mtrace |-> [k \in 1..b.mw |-> [i \in 1..L |-> TAt(mtp[k], dom[i], 1)[1]]],
             atrace |-> [k \in 1..b.aw |-> [i \in 1..L |-> JE(TAt(atp[k], dom[i], d))]],
             mstate |-> JP(mstate), astate |-> JP(astate)]
       ELSE [fam |-> "error"]
Emit == Built => PrintT(<<"REPLAY", ToJson(Scenario(case))>>)
=============================================================================
