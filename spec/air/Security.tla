------------------------------ MODULE Security ------------------------------
(* C25 — security estimates are monotone and bounded; option checks match.

   MODEL (integer part).  `Conj(o, fb, cr)` is ConjecturedSecurity::compute of
   air/src/proof/security.rs written as integer arithmetic:
        field_security = fb * e
        query_security = log2(blowup) * queries  (+ grinding  when  >= 80)
        bits           = min(min(field_security, query_security) - 1, cr)
   MCSecurity.tla: the state of the exploration machine is one option tuple (blowup, extension degree, grinding,
   queries) for a field size fb and a collision resistance cr; the actions raise the number of
   queries, the grinding factor or the extension degree by one.  TLC checks over the WHOLE grid
        Bounds          bits <= cr  /\  bits < fb * e              (invariant)
        NonDecreasing   [][bits' >= bits]_vars                     (action property)
   The property is stated about the real code, so these results are carried over to it in two ways:
   (a) the generator prints, for every (blowup, e, g, fb, cr), the vector of `Conj` over all query counts
       and the harness compares it with the real compute() (agreement of the model on the full grid);
   (b) independently of the formula, TraceSecurity.tla validates the relational facts on tables
       recorded from the real code (that is what gates).

   DECISION RULES.  `Meets(bits, m)` and `InSet(o, S)` are the specification of
   AcceptableOptions::validate; GenSecurity.tla prints option-set cases (options that differ from the proof's
   options in exactly one field, or in none) with the expected verdict. *)
EXTENDS Naturals, Sequences, FiniteSets, TLC, Json

Min2(x, y) == IF x < y THEN x ELSE y
Max2(x, y) == IF x > y THEN x ELSE y
Log2(x) == CHOOSE k \in 0..30 : 2 ^ k = x           \* blowup factors are powers of two

GrindingFloor == 80

QuerySecurity(bl, gr, nq) ==
  LET s == Log2(bl) * nq IN IF s >= GrindingFloor THEN s + gr ELSE s

Conj(bl, ex, gr, nq, fbits, cres) ==
  Min2(Min2(fbits * ex, QuerySecurity(bl, gr, nq)) - 1, cres)

(***************************************************************************)
(* Decision rules of AcceptableOptions::validate                           *)
(***************************************************************************)
Meets(bits, m) == bits >= m
InSet(o, S) == \E i \in 1..Len(S) : S[i] = o
=============================================================================
