------------------------------ MODULE Security ------------------------------
(* C25 — security estimates are monotone and bounded; option checks match.

   MODEL (integer part).  `Conj(o, fb, cr)` is ConjecturedSecurity::compute of
   air/src/proof/security.rs written as integer arithmetic:
        field_security = fb * e
        query_security = log2(blowup) * queries  (+ grinding  when  >= 80)
        bits           = min(min(field_security, query_security) - 1, cr)
   where fb is the bit length of the base field modulus as a number (BitLen of the announced bytes).
   MCSecurity.tla: the state of the exploration machine is one option tuple (blowup, extension degree, grinding,
   queries) for a field size fb and a collision resistance cr; the actions raise the number of
   queries, the grinding factor or the extension degree by one.  TLC checks over the WHOLE grid
        Bounds          bits <= cr  /\  bits < fb * e              (invariant)
        NonDecreasing   [][bits' >= bits]_vars                     (action property)
   The property is stated about the real code, so these results are carried over to it in two ways:
   (a) the generator prints, for every (blowup, e, g, fb, cr), the vector of `Conj` over all query counts
       and the harness compares it with the real compute() (agreement of the model on the full grid);
   (b) independently of the formula, TraceSecurity.tla validates the relational facts on tables
       recorded from the real code (that is what gates).

   DECISION RULES.  `Meets(bits, m)` and `InSet(o, S)` are the specification of
   AcceptableOptions::validate; GenSecurity.tla prints option-set cases (options that differ from the proof's
   options in exactly one field, or in none) with the expected verdict. *)
EXTENDS Naturals, Sequences, FiniteSets, TLC, Json, Bytes

Log2(x) == CHOOSE k \in 0..30 : 2 ^ k = x           \* blowup factors are powers of two

GrindingFloor == 80

QuerySecurity(bl, gr, nq) ==
  LET s == Log2(bl) * nq IN IF s >= GrindingFloor THEN s + gr ELSE s

Conj(bl, ex, gr, nq, fbits, cres) ==
  Min2(Min2(fbits * ex, QuerySecurity(bl, gr, nq)) - 1, cres)

(***************************************************************************)
(* The base field of a proof context                                        *)
(* A context announces its field by the little-endian bytes of the modulus.  The field size that     *)
(* enters the estimates is the bit length of that NUMBER (index of its highest set bit), whatever    *)
(* the length of the encoding: high zero bytes do not make a field bigger.                            *)
(***************************************************************************)
BitLen(bs) == LET t == Trim(bs) IN IF t = <<>> THEN 0 ELSE 8 * (Len(t) - 1) + (8 - LZ8(t[Len(t)]))

M62  == <<1, 0, 0, 0, 128, 200, 255, 63>>                                        \* 2^62 - 111*2^39 + 1
M64  == <<1, 0, 0, 0, 255, 255, 255, 255>>                                      \* 2^64 - 2^32 + 1
M128 == <<1, 0, 0, 0, 0, 211, 255, 255, 255, 255, 255, 255, 255, 255, 255, 255>> \* 2^128 - 45*2^40 + 1
M31  == <<1, 0, 0, 120>>                                                        \* 15*2^27 + 1 (31 bits)
\* Encodings of base fields.  src "new": Context::new over a StarkField type whose
\* get_modulus_le_bytes() returns these bytes (the three built-in fields; toy fields with minimal-length
\* bytes; custom fields that keep a small modulus in a wide integer).  src "wire": Context::read_from
\* on a serialized context whose modulus field holds these bytes (zero padded).
Flds == {"f62", "f64", "f128", "toy97", "toy257", "toy40961", "pad97x8", "pad257x4", "pad40961x8",
         "w:f64x9", "w:f64x12", "w:f64x16", "w:f62x16", "w:p31x4", "w:p31x8", "w:97x1", "w:97x4", "w:97x8"}
BuiltinFlds == {"f62", "f64", "f128"}
WireFlds == {"w:f64x9", "w:f64x12", "w:f64x16", "w:f62x16", "w:p31x4", "w:p31x8", "w:97x1", "w:97x4", "w:97x8"}
ModOf(f) == CASE f = "f62" -> M62 [] f = "f64" -> M64 [] f = "f128" -> M128
              [] f = "toy97" -> <<97>> [] f = "toy257" -> <<1, 1>> [] f = "toy40961" -> <<1, 160>>
              [] f = "pad97x8" -> PadTo(<<97>>, 8) [] f = "pad257x4" -> PadTo(<<1, 1>>, 4)
              [] f = "pad40961x8" -> PadTo(<<1, 160>>, 8)
              [] f = "w:f64x9" -> PadTo(M64, 9) [] f = "w:f64x12" -> PadTo(M64, 12) [] f = "w:f64x16" -> PadTo(M64, 16)
              [] f = "w:f62x16" -> PadTo(M62, 16)
              [] f = "w:p31x4" -> M31 [] f = "w:p31x8" -> PadTo(M31, 8)
              [] f = "w:97x1" -> <<97>> [] f = "w:97x4" -> PadTo(<<97>>, 4) [] f = "w:97x8" -> PadTo(<<97>>, 8)
SrcOf(f) == IF f \in WireFlds THEN "wire" ELSE "new"
FieldBitsOf(f) == BitLen(ModOf(f))
FieldInfo(f) == [fld |-> f, src |-> SrcOf(f), mod |-> ModOf(f), fbits |-> FieldBitsOf(f)]

(***************************************************************************)
(* Decision rules of AcceptableOptions::validate                           *)
(***************************************************************************)
Meets(bits, m) == bits >= m
InSet(o, S) == \E i \in 1..Len(S) : S[i] = o
=============================================================================
