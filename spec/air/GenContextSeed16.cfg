\* grid exploration, element size 16: every step changes exactly one listed parameter
SPECIFICATION Spec
CONSTANTS EB = 16  MetaMaxLen = 31  BinMaxLen = 4
  Vals <- ValsQ16  Bases <- BasesG  MetaKinds <- AllKinds
INVARIANT SeedShape EmitG
ACTION_CONSTRAINT NoteCollision
CHECK_DEADLOCK FALSE
