\* metadata family, element size 8: all pairs of the family on two base contexts
SPECIFICATION SpecM
CONSTANTS EB = 8  MetaMaxLen = 15  BinMaxLen = 4
  Vals <- ValsQ8  Bases <- BasesM  MetaKinds <- AllKinds
INVARIANT SeedShape CollisionsAreTrailingZeros NoteMetaCollisions EmitM
CHECK_DEADLOCK FALSE
