--------------------------- MODULE MCContextSeed ---------------------------
(* Model-checking / generator instances of ContextSeed. *)
EXTENDS ContextSeed

Fields8  == {"f62", "f64"}
Fields16 == {"f62", "f64", "f128"}

ValsQ(fields) == [p \in Params |->
  CASE p = "mw" -> {1, 253} [] p = "aw" -> {0, 1, 2} [] p = "ar" -> {0, 255} [] p = "le" -> {3, 20}
    [] p = "meta" -> {<<>>, <<1>>, <<1, 0>>} [] p = "mod" -> fields [] p = "nc" -> {1, 256}
    [] p = "ext" -> {1, 2, 3} [] p = "blow" -> {2, 128} [] p = "fold" -> {2, 16} [] p = "rem" -> {0, 255}
    [] p = "grind" -> {0, 32} [] p = "q" -> {1, 255}]
ValsT(fields) == [p \in Params |->
  CASE p = "mw" -> {1, 254, 255} [] p = "aw" -> {0, 1, 254} [] p = "ar" -> {0, 1, 255} [] p = "le" -> {3, 24}
    [] p = "meta" -> {<<>>, <<0>>, <<1>>, <<1, 0>>} [] p = "mod" -> fields [] p = "nc" -> {1, 256, 65536}
    [] p = "ext" -> {1, 2, 3} [] p = "blow" -> {2, 128} [] p = "fold" -> {2, 16} [] p = "rem" -> {0, 255}
    [] p = "grind" -> {0, 32} [] p = "q" -> {1, 255}]
ValsQ8 == ValsQ(Fields8)     ValsQ16 == ValsQ(Fields16)
ValsT8 == ValsT(Fields8)     ValsT16 == ValsT(Fields16)

\* (the grids contain every value of Base1, so the explored set is exactly the valid part of the product)
\* cb / db: constraint / DEEP batching method (0 linear, 1 algebraic, 2 Horner) — not among the listed
\* parameters (never stepped), but part of the options every context is built with
Base1 == [mw |-> 1, aw |-> 0, ar |-> 0, le |-> 3, meta |-> <<>>, mod |-> "f64", nc |-> 1,
          ext |-> 1, blow |-> 2, fold |-> 2, rem |-> 0, grind |-> 0, q |-> 1, cb |-> 0, db |-> 0]
Base2 == [mw |-> 20, aw |-> 9, ar |-> 12, le |-> 12, meta |-> <<>>, mod |-> "f62", nc |-> 128,
          ext |-> 2, blow |-> 8, fold |-> 8, rem |-> 127, grind |-> 20, q |-> 30, cb |-> 0, db |-> 0]
BasesG == {Base1}
BasesM == {Base1, Base2}
\* the option parameters under every non-default pair of batching methods (the other parameters fixed)
BasesB == {[Base1 EXCEPT !.cb = x[1], !.db = x[2]] : x \in ({0, 1, 2} \X {0, 1, 2}) \ {<<0, 0>>}}
ValsOpt(fields) == [p \in Params |->
  CASE p = "mw" -> {1} [] p = "aw" -> {0} [] p = "ar" -> {0} [] p = "le" -> {3}
    [] p = "meta" -> {<<>>} [] p = "mod" -> fields [] p = "nc" -> {1}
    [] p = "ext" -> {1, 2, 3} [] p = "blow" -> {2, 128} [] p = "fold" -> {2, 16} [] p = "rem" -> {0, 255}
    [] p = "grind" -> {0, 1, 31, 32} [] p = "q" -> {1, 255}]
ValsOpt8 == ValsOpt(Fields8)     ValsOpt16 == ValsOpt(Fields16)
AllKinds == {"zero", "one", "first", "alt", "edge"}
=============================================================================
