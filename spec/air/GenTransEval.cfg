\* C23 quick: the prover's transition evaluation for 6 (field, length) pairs x 5 exemption counts x 2 variants
SPECIFICATION Spec
CONSTANTS TECases <- TEQuick
INVARIANT Emit
CHECK_DEADLOCK FALSE
