\* thorough: every assertion constructible with parameters <= 128 is one initial state; EmitA prints its
\* scenario line (fits/steps table over TestLens, overlap codes against the whole universe).
SPECIFICATION SpecA
CONSTANTS LMax = 128  SetLen = 8  SetWidth = 2
  Cols <- ColsTwo  TestLens <- TestLensAll
INVARIANT UniverseValid StepsWellFormed EmitA
CHECK_DEADLOCK FALSE
