SPECIFICATION Spec
CONSTANTS Fams = {"pair", "each", "rand", "long"}  NRand = 40  AllAux = TRUE  LongLens = {128, 256, 512, 1024}
INVARIANT Valid ValueInterp DocDivisor Emit
CHECK_DEADLOCK FALSE
