\* conditional edge family first = stride (see Assertions.tla)
SPECIFICATION SpecE
CONSTANTS LMax = 32  SetLen = 8  SetWidth = 2
  Cols <- ColsTwo  TestLens <- TestLensAll
INVARIANT EdgeNeverFits EmitE
CHECK_DEADLOCK FALSE
