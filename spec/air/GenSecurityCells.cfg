\* run with -simulate: every behaviour builds one grid cell and prints it when complete
SPECIFICATION SpecK
CONSTANTS MaxQ = 255
  OtherBlowups <- SomeBlowups  OtherGrindings <- FewGrindings
  Blowups <- AllBlowups  Exts <- AllExts  Grindings <- SomeGrindings  FieldBits <- AllFieldBits  CRs <- AllCRs
INVARIANT EmitK
CHECK_DEADLOCK FALSE
