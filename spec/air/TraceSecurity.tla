--------------------------- MODULE TraceSecurity ---------------------------
(* C25 — Record -> Validate of the security estimates and of AcceptableOptions::validate.

   Each event of the ndjson trace (environment variable TRACE) is what the real code returned for one
   grid CELL (blowup b, base field encoding fld / src / mod = the announced modulus bytes, collision resistance cr, trace length 2^ll, constraint count nc,
   trace width w, FRI folding / remainder degree, the two batching methods):
       gs              the grinding factors of the table (increasing)
       conj, ldr, udr  tables [e in 1..3][index into gs][queries 1..nq] of
                       conjectured_security().bits(), proven_security().ldr_bits() / udr_bits()
       dec             decisions: {k: "conj"|"proven", e, gi, qi, m, al, ok} =
                       is_at_least(m) and AcceptableOptions::Min*Security(m).validate(proof).is_ok()
                       for the options of table entry (e, gi, qi)
       mod             Context::field_modulus_bytes() of the context the estimates were computed on
       panic           present when a call did not return (never accepted)
   The field size is NOT taken from the code: FB(ev) is the bit length of the modulus VALUE
   (Security!BitLen of the announced bytes), so an estimate that measures the encoding instead of the
   number is rejected by "conjectured < extension field bits".
   The specification knows nothing about the formulas (the proven estimate is floating point); it
   states the property: bounds, monotonicity along queries / grinding / extension degree, and the
   decision rules `Meets` of Security.tla applied to the recorded estimates.  Every clause yields the
   set of table positions contradicting it; an event is accepted iff all sets are empty.  Validation
   continues after a rejected event (events are self-contained). *)
EXTENDS Integers, Sequences, TLC, Json, IOUtils, Security

Rec == ndJsonDeserialize(IOEnv.TRACE)

VARIABLE l
vars == <<l>>

Has(ev, k) == k \in DOMAIN ev

NG(ev) == Len(ev.gs)
Idx(ev) == {<<x, gi, qi>> : x \in 1..3, gi \in 1..NG(ev), qi \in 1..ev.nq}
At(t, p) == t[p[1]][p[2]][p[3]]
Proven(ev, p) == Max2(At(ev.ldr, p), At(ev.udr, p))

Shaped(ev, t) == /\ Len(t) = 3
                 /\ \A x \in 1..3 : Len(t[x]) = NG(ev) /\ \A gi \in 1..NG(ev) : Len(t[x][gi]) = ev.nq
GsIncreasing(ev) == \A i \in 1..(NG(ev) - 1) : ev.gs[i] < ev.gs[i + 1]

\* positions contradicting each clause of the property
BadConjCR(ev)    == {p \in Idx(ev) : At(ev.conj, p) > ev.cell.cr}
FB(ev) == BitLen(ev.cell.mod)
BadConjField(ev) == {p \in Idx(ev) : At(ev.conj, p) >= FB(ev) * p[1]}
BadLdrCR(ev)     == {p \in Idx(ev) : At(ev.ldr, p) > ev.cell.cr}
BadUdrCR(ev)     == {p \in Idx(ev) : At(ev.udr, p) > ev.cell.cr}
BadMonoQ(ev, t)  == {p \in Idx(ev) : p[3] < ev.nq /\ At(t, p) > At(t, <<p[1], p[2], p[3] + 1>>)}
BadMonoG(ev, t)  == {p \in Idx(ev) : p[2] < NG(ev) /\ At(t, p) > At(t, <<p[1], p[2] + 1, p[3]>>)}
BadMonoE(ev, t)  == {p \in Idx(ev) : p[1] < 3 /\ At(t, p) > At(t, <<p[1] + 1, p[2], p[3]>>)}
DecPos(d) == <<d.e, d.gi, d.qi, d.m>>
BadDec(ev) == {DecPos(ev.dec[i]) : i \in {j \in 1..Len(ev.dec) :
                 LET d == ev.dec[j]
                     p == <<d.e, d.gi, d.qi>>
                     bits == IF d.k = "conj" THEN At(ev.conj, p) ELSE Proven(ev, p)
                 IN ~(d.k \in {"conj", "proven"} /\ d.al = Meets(bits, d.m) /\ d.ok = Meets(bits, d.m))}}
\* a requested conjectured minimum at or above the extension field size is never accepted
BadDecField(ev) == {DecPos(ev.dec[i]) : i \in {j \in 1..Len(ev.dec) :
                      LET d == ev.dec[j] IN d.k = "conj" /\ d.m >= FB(ev) * d.e /\ (d.ok \/ d.al)}}

Clauses(ev) ==
  << <<"conjectured <= collision resistance", BadConjCR(ev)>>,
     <<"conjectured < extension field bits", BadConjField(ev)>>,
     <<"proven ldr <= collision resistance", BadLdrCR(ev)>>,
     <<"proven udr <= collision resistance", BadUdrCR(ev)>>,
     <<"conjectured non-decreasing in queries", BadMonoQ(ev, ev.conj)>>,
     <<"conjectured non-decreasing in grinding", BadMonoG(ev, ev.conj)>>,
     <<"conjectured non-decreasing in extension degree", BadMonoE(ev, ev.conj)>>,
     <<"proven ldr non-decreasing in queries", BadMonoQ(ev, ev.ldr)>>,
     <<"proven ldr non-decreasing in grinding", BadMonoG(ev, ev.ldr)>>,
     <<"proven ldr non-decreasing in extension degree", BadMonoE(ev, ev.ldr)>>,
     <<"proven udr non-decreasing in queries", BadMonoQ(ev, ev.udr)>>,
     <<"proven udr non-decreasing in grinding", BadMonoG(ev, ev.udr)>>,
     <<"proven udr non-decreasing in extension degree", BadMonoE(ev, ev.udr)>>,
     <<"is_at_least / validate decide by the computed bits", BadDec(ev)>>,
     <<"conjectured minimum >= extension field bits is never accepted", BadDecField(ev)>> >>

WellFormed(ev) == /\ ~Has(ev, "panic")
                  /\ ev.mod = ev.cell.mod /\ ev.cell.fbits = FB(ev)
                  /\ Shaped(ev, ev.conj) /\ Shaped(ev, ev.ldr) /\ Shaped(ev, ev.udr)
                  /\ GsIncreasing(ev) /\ Len(ev.dec) > 0

\* (printed as a JSON string: TLC wraps long tuples over several lines)
\* prints one line per contradicted clause with a witness position; TRUE iff the event is explained
Explains(ev) ==
  IF ~WellFormed(ev) THEN PrintT(<<"REJECTED", ToJson([l |-> l, clause |-> "event not well formed or call panicked",
                                                        pos |-> <<>>, count |-> 0])>>) /\ FALSE
  ELSE LET cs == Clauses(ev)
           bad == {i \in 1..Len(cs) : cs[i][2] # {}}
       IN /\ \A i \in bad : PrintT(<<"REJECTED", ToJson([l |-> l, clause |-> cs[i][1], pos |-> CHOOSE w \in cs[i][2] : TRUE,
                                                            count |-> Cardinality(cs[i][2])])>>)
          /\ bad = {}

Init == l = 1
Next == /\ l <= Len(Rec)
        /\ IF Explains(Rec[l]) THEN TRUE ELSE TRUE
        /\ l' = l + 1
Spec == Init /\ [][Next]_vars

Progress == TLCSet(7, l)
Accepted == IF TLCGet(7) = Len(Rec) + 1 THEN PrintT(<<"CONSUMED", Len(Rec)>>)
            ELSE Print(<<"STOPPED_AT", TLCGet(7)>>, FALSE)
=============================================================================
