\* C23 quick: every cycle 2..L for 7 (field, length) pairs, 2 seeded value vectors each, special vectors,
\* one six-column mixture per pair.
SPECIFICATION Spec
CONSTANTS PCases <- PQuick  NSeeds = 2
INVARIANT Interpolates Reproduces Emit
CHECK_DEADLOCK FALSE
