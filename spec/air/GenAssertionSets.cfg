\* assertion lists of length 1..3 handed to BoundaryConstraints::new (prepare_assertions) with the
\* accept/reject expectation.
SPECIFICATION SpecS
CONSTANTS LMax = 8  SetLen = 8  SetWidth = 2
  Cols <- ColsTwo  TestLens <- TestLensAll
INVARIANT EmitS
CHECK_DEADLOCK FALSE
