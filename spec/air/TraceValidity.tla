--------------------------- MODULE TraceValidity ---------------------------
(* C29 (and the classification lemma used by C02): for small AIR descriptions over a toy field TLC
   computes the whole honest trace, applies a corruption, and decides with AirFamily's validity
   predicate whether the (trace, public values) pair satisfies the AIR — the "independent constraint
   checker" of the property.  Each case is emitted with that verdict; the harness calls the real
   `Trace::validate` on the same trace.  TLC also checks, on every case, that the structural
   classification CertainUnsat / CertainSat (used over the 62/64/128-bit fields where TLC does not
   compute traces) agrees with the computed validity. *)
EXTENDS Integers, Sequences, FiniteSets, TLC, Json, AirFamily

CONSTANTS P,            \* toy modulus
          LogLen,
          ShapeSets,    \* set of shape sequences (one per column)
          Exemptions,   \* set of exemption counts
          AssertSets,   \* set of assertion sequences
          AuxChoices,   \* set of aux descriptions (sequences of length 0 or 1)
          Deltas

VARIABLES d, k, phase
vars == <<d, k, phase>>

L == 2 ^ LogLen
NoCorr == [kind |-> "none", col |-> 0, row |-> 0, delta |-> 0, idx |-> 0]

NeedsP(shs) == \E j \in 1..Len(shs) : ShapePeriodics(shs[j]) > 0
Needs2P(shs) == \E j \in 1..Len(shs) : ShapePeriodics(shs[j]) > 1

\* cycle lengths of the periodic columns: with two columns, both orders (the longer cycle first / last)
\* and equal cycles
PCycChoices(shs) == IF Needs2P(shs) THEN {<<4, 2>>, <<2, 4>>, <<2, 8>>, <<4, 4>>}
                    ELSE IF NeedsP(shs) THEN {<<4>>} ELSE {<<>>}
Descs == { [width |-> Len(shs), log_len |-> LogLen, shapes |-> shs,
            pcyc |-> pc,
            \* a "pcol" column equals periodic column 0: its first row is that column's value at step L - 1
            init |-> [j \in 1..Len(shs) |-> IF shs[j] = "pcol" /\ pc # <<>> THEN PerValue(0, pc[1], L - 1) ELSE j + 1],
            exemptions |-> e, asserts |-> as, aux |-> ax, meta |-> <<>>, extra |-> <<>>]
          : shs \in ShapeSets, e \in Exemptions, as \in AssertSets, ax \in AuxChoices, pc \in UNION {PCycChoices(s2) : s2 \in ShapeSets} }

WellFormed(x) ==
  /\ x.pcyc \in PCycChoices(x.shapes)
  /\ ExemptionsOk(x)
  /\ \A i \in 1..Len(x.asserts) : x.asserts[i].col < x.width
  /\ \A i, j \in 1..Len(x.asserts) : i # j => ACells(x.asserts[i], L) \cap ACells(x.asserts[j], L) = {}
  /\ \A i \in 1..Len(x.asserts) : x.asserts[i].t = "periodic" => x.shapes[x.asserts[i].col + 1] = "pcol"
  /\ x.aux # <<>> => \A m \in 1..x.aux[1].width : x.aux[1].src[m] < x.width

Corruptions(x) ==
  {NoCorr}
  \cup {[kind |-> "cell", col |-> c, row |-> r, delta |-> dl, idx |-> 0] : c \in 0..(x.width - 1), r \in 0..(L - 1), dl \in Deltas}
  \cup {[kind |-> "row", col |-> 0, row |-> r, delta |-> dl, idx |-> 0] : r \in 0..(L - 1), dl \in Deltas}
  \cup {[kind |-> "col", col |-> c, row |-> 0, delta |-> dl, idx |-> 0] : c \in 0..(x.width - 1), dl \in Deltas}
  \cup (IF x.aux = <<>> THEN {}
        ELSE {[kind |-> "aux", col |-> m, row |-> r, delta |-> 1, idx |-> 0] : m \in 0..(x.aux[1].width - 1), r \in 0..(L - 1)}
             \cup {[kind |-> "auxscale", col |-> m, row |-> 0, delta |-> 2, idx |-> 0] : m \in 0..(x.aux[1].width - 1)})

Init == /\ d \in {x \in Descs : WellFormed(x)}
        /\ k = NoCorr
        /\ phase = "desc"
Next == /\ phase = "desc"
        /\ k' \in Corruptions(d)
        /\ phase' = "case"
        /\ UNCHANGED d
Spec == Init /\ [][Next]_vars

Rands == <<5, 11>>     \* auxiliary random elements used for the toy cases (base-field values)

Rows == HonestRows(P, d)
Vals == HonestValues(d, Rows, 1, <<>>)
CRows == ApplyCorruption(P, d, Rows, k)
AuxOk ==
  IF d.aux = <<>> THEN TRUE
  ELSE LET ar == HonestAuxRows(P, d, CRows, Rands)      \* the aux segment is built from the (corrupted) main trace
           ar2 == IF k.kind = "aux"
                    THEN [i \in 1..Len(ar) |-> [m \in 1..d.aux[1].width |->
                             IF i = k.row + 1 /\ m = k.col + 1 THEN FAdd(P, ar[i][m], 1) ELSE ar[i][m]]]
                    ELSE IF k.kind = "auxscale"
                    THEN [i \in 1..Len(ar) |-> [m \in 1..d.aux[1].width |->
                             IF m = k.col + 1 THEN FMul(P, ar[i][m], 2) ELSE ar[i][m]]]
                    ELSE ar
       IN ValidAux(P, d, CRows, ar2, Rands)
Valid == ValidMain(P, d, CRows, Vals) /\ AuxOk

Case == [desc |-> DescJson(d), field |-> P, corrupt |-> k, rands |-> Rands,
         expect_valid |-> Valid,
         class |-> IF CertainUnsat(d, k) THEN "unsat" ELSE IF CertainSat(d, k) THEN "sat" ELSE "open"]

Emit == phase = "case" => PrintT(<<"REPLAY", ToJson(Case)>>)

\* the classification lemma, checked on every case of the model
ClassificationSound ==
  phase = "case" => /\ (CertainUnsat(d, k) => ~Valid)
                    /\ (CertainSat(d, k) => Valid)
\* the honest trace is valid (sanity of the family itself)
HonestValid == phase = "desc" => Valid
=============================================================================
