----------------------------- MODULE MCSecurity -----------------------------
(* Exploration machine over the option grid (see Security.tla): one state per option tuple, the
   actions raise queries / grinding / extension degree by one; Bounds is an invariant, NonDecreasing
   an action property. *)
EXTENDS Security

CONSTANTS Blowups, FieldBits, CRs,   \* sets
          MaxQ, MaxG, MaxE           \* queries 1..MaxQ, grinding 0..MaxG, extension degree 1..MaxE

VARIABLES fb, cr, b, e, g, q
vars == <<fb, cr, b, e, g, q>>

Bits == Conj(b, e, g, q, fb, cr)

Init == /\ fb \in FieldBits /\ cr \in CRs /\ b \in Blowups
        /\ e = 1 /\ g = 0 /\ q = 1

MoreQueries  == q < MaxQ /\ q' = q + 1 /\ UNCHANGED <<fb, cr, b, e, g>>
MoreGrinding == g < MaxG /\ g' = g + 1 /\ UNCHANGED <<fb, cr, b, e, q>>
MoreExt      == e < MaxE /\ e' = e + 1 /\ UNCHANGED <<fb, cr, b, g, q>>
Next == MoreQueries \/ MoreGrinding \/ MoreExt
Spec == Init /\ [][Next]_vars

Bounds == Bits <= cr /\ Bits < fb * e
NonDecreasing == [][Conj(b, e', g', q', fb, cr) >= Conj(b, e, g, q, fb, cr)]_vars
\* the subtraction in the formula never goes below zero (u32 in the code)
NoUnderflow == Min2(fb * e, QuerySecurity(b, g, q)) >= 1

AllBlowups == {2, 4, 8, 16, 32, 64, 128}
SomeBlowups == {2, 8, 128}
\* the bit lengths of every modulus of Security!Flds (7, 9, 16, 31, 62, 64, 128)
AllFieldBits == {FieldBitsOf(f) : f \in Flds}
AllCRs == {64, 96, 124, 128}     \* 64: a hasher with a 128-bit digest (custom Hasher implementations)
=============================================================================
