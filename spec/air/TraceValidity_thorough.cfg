SPECIFICATION Spec
CONSTANTS P = 257  LogLen = 3  Deltas = {1, 96}
  ShapeSets <- ShapesMore  Exemptions = {1, 2, 3, 4}  AssertSets <- AssertsQuick  AuxChoices <- AuxMore
INVARIANT Emit ClassificationSound HonestValid
CHECK_DEADLOCK FALSE
