SPECIFICATION SpecO
CONSTANTS MaxQ = 255
  OtherBlowups <- SomeBlowups  OtherGrindings <- FewGrindings
  Blowups <- AllBlowups  Exts <- AllExts  Grindings <- SomeGrindings  FieldBits <- AllFieldBits  CRs <- AllCRs
INVARIANT EmitO
CHECK_DEADLOCK FALSE
