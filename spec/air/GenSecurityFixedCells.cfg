\* cells that are always recorded: one per field encoding plus three grid corners
SPECIFICATION SpecF
CONSTANTS MaxQ = 255
  OtherBlowups <- SomeBlowups  OtherGrindings <- FewGrindings
  Blowups <- AllBlowups  Exts <- AllExts  Grindings <- SomeGrindings  FieldBits <- AllFieldBits  CRs <- AllCRs
INVARIANT EmitF
CHECK_DEADLOCK FALSE
