\* metadata family, element size 16: all pairs of the family on two base contexts
SPECIFICATION SpecM
CONSTANTS EB = 16  MetaMaxLen = 31  BinMaxLen = 4
  Vals <- ValsQ16  Bases <- BasesM  MetaKinds <- AllKinds
INVARIANT SeedShape CollisionsAreTrailingZeros NoteMetaCollisions EmitM
CHECK_DEADLOCK FALSE
