---------------------------- MODULE GenPeriodic ----------------------------
(* C23 — generator and design-level checks for periodic columns (definitions: Periodic.tla). *)
EXTENDS Periodic

CONSTANTS PCases     \* set of <<P, L>>
          , NSeeds   \* seeded value vectors per single-cycle case

VARIABLES case, phase
vars == <<case, phase>>

(***************************************************************************)
(* cases                                                                   *)
(***************************************************************************)
\* a column description: [c, kind, k]
Singles(L) == {<< [c |-> c, kind |-> "rnd", k |-> k] >> : c \in Pow2s(1, Log2(L)), k \in 1..NSeeds}
              \cup {<< [c |-> c, kind |-> kd, k |-> 1] >> : c \in {2, L}, kd \in {"const", "unit", "ramp"}}
Mixed(L) == { << [c |-> 2, kind |-> "rnd", k |-> 7], [c |-> L, kind |-> "rnd", k |-> 8],
                 [c |-> 4, kind |-> "rnd", k |-> 9], [c |-> 4, kind |-> "unit", k |-> 10],
                 [c |-> L, kind |-> "ramp", k |-> 11], [c |-> L \div 2, kind |-> "rnd", k |-> 12] >> }
Init == phase = 0 /\ case \in UNION {{[P |-> pc[1], L |-> pc[2], cols |-> cs] : cs \in Singles(pc[2]) \cup Mixed(pc[2])} : pc \in PCases}
\* TLC computes initial states in one thread: every case takes one step, and the invariants (and the
\* scenario emission) are evaluated on the state after it, by the workers
Next == phase = 0 /\ phase' = 1 /\ UNCHANGED case
Spec == Init /\ [][Next]_vars

ColValues(c, k) == Values(c.P, c.L, c.cols[k].c, c.cols[k].kind, Stream(400 + c.cols[k].c + k, c.L + c.cols[k].k))
NCols(c) == Len(c.cols)
Vals(c) == Mat([k \in 1..NCols(c) |-> ColValues(c, k)], NCols(c))
Polys(c) == LET v == Vals(c) IN Mat([k \in 1..NCols(c) |-> Coef(c.P, v[k])], NCols(c))

\* design-level: Coef is the interpolant of the definition, h = g^(L/c), and the property's claim
Interpolates == phase = 1 =>
  LET v == Vals(case)  p == Polys(case) IN
  \A k \in 1..NCols(case) :
    LET cy == Len(v[k])  h == RootOfUnity(case.P, Log2(cy)) IN
    /\ Len(p[k]) = cy
    /\ h = FPow(case.P, RootOfUnity(case.P, Log2(case.L)), case.L \div cy)
    /\ \A i \in 1..cy : PEval(case.P, [j \in 1..cy |-> <<p[k][j]>>], <<FPow(case.P, h, i - 1)>>) = <<v[k][i]>>
Reproduces == phase = 1 =>
  LET v == Vals(case)  p == Polys(case)  g == RootOfUnity(case.P, Log2(case.L)) IN
  \A k \in 1..NCols(case) : \A s \in 0..(case.L - 1) :
     ColAtB(case.P, case.L, p[k], FPow(case.P, g, s)) = v[k][(s % Len(v[k])) + 1]

(***************************************************************************)
(* scenario                                                                *)
(***************************************************************************)
Scenario(c) ==
  LET P == c.P  L == c.L
      v == Vals(c)  p == Polys(c)
      g == RootOfUnity(P, Log2(L))
      w == RootOfUnity(P, Log2(2 * L))
      dom == Mat([s \in 1..L |-> FPow(P, g, s - 1)], L)
      coset == Mat([i \in 1..(2 * L) |-> FMul(P, Gen(P), FPow(P, w, i - 1))], 2 * L)
      st == Stream(450, L + NCols(c))
      e2 == Mat([i \in 1..3 |-> RElem(P, 2, st, i)], 3)
      e3 == Mat([i \in 1..3 |-> RElem(P, 3, st, 10 + i)], 3)
  IN [P |-> P, L |-> L, values |-> v,
      dom |-> dom,
      \* at[k][s + 1] = value of column k at step s, by the definition of a periodic column
      at |-> [k \in 1..NCols(c) |-> [s \in 1..L |-> v[k][((s - 1) % Len(v[k])) + 1]]],
      coset |-> coset,
      oncoset |-> [k \in 1..NCols(c) |-> [i \in 1..(2 * L) |-> ColAtB(P, L, p[k], coset[i])]],
      e2 |-> e2, on2 |-> [k \in 1..NCols(c) |-> [i \in 1..3 |-> ColAtE(P, L, p[k], e2[i])]],
      e3 |-> e3, on3 |-> [k \in 1..NCols(c) |-> [i \in 1..3 |-> ColAtE(P, L, p[k], e3[i])]]]
Emit == phase = 1 => PrintT(<<"REPLAY", ToJson(Scenario(case))>>)
=============================================================================
