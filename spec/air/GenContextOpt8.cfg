\* option parameters under every non-default pair of batching methods, element size 8
SPECIFICATION Spec
CONSTANTS EB = 8  MetaMaxLen = 15  BinMaxLen = 4
  Vals <- ValsOpt8  Bases <- BasesB  MetaKinds <- AllKinds
INVARIANT SeedShape EmitG
ACTION_CONSTRAINT NoteCollision
CHECK_DEADLOCK FALSE
