\* constructor argument classes with the documented accept/reject expectation.
SPECIFICATION SpecC
CONSTANTS LMax = 8  SetLen = 8  SetWidth = 2
  Cols <- ColsTwo  TestLens <- TestLensAll
INVARIANT EmitC
CHECK_DEADLOCK FALSE
