\* grid exploration, element size 8: every step changes exactly one listed parameter
SPECIFICATION Spec
CONSTANTS EB = 8  MetaMaxLen = 15  BinMaxLen = 4
  Vals <- ValsQ8  Bases <- BasesG  MetaKinds <- AllKinds
INVARIANT SeedShape EmitG
ACTION_CONSTRAINT NoteCollision
CHECK_DEADLOCK FALSE
