\* thorough: every blowup factor, all field sizes and collision-resistance levels, full queries x grinding x extension.
SPECIFICATION Spec
CONSTANTS MaxQ = 255  MaxG = 32  MaxE = 3
  Blowups <- AllBlowups  FieldBits <- AllFieldBits  CRs <- AllCRs
INVARIANT Bounds NoUnderflow
PROPERTY NonDecreasing
CHECK_DEADLOCK FALSE
