---------------------------- MODULE MCAssertions ----------------------------
(* Model-checking / generator instances of Assertions. *)
EXTENDS Assertions

ColsTwo == {0, 1}
\* every power of two up to 128, zero, and non-powers below, between and above them
TestLensAll == {0, 1, 2, 3, 4, 5, 6, 7, 8, 12, 15, 16, 17, 24, 32, 33, 48, 63, 64, 65, 96, 100, 127, 128, 129, 256}
=============================================================================
