----------------------------- MODULE TransEval -----------------------------
(* C23, prover side — the transition part of the constraint composition as the prover's
   DefaultConstraintEvaluator computes it: periodic value table, evaluation frames over the LDE,
   division by the transition divisor with e exemptions (e > 1 included) over the constraint
   evaluation domain.

   The AIR (harness ToyAir in "transition mode") has one main column with trace polynomial T, periodic
   columns per_1..per_m and the transition constraints
        C_k(x) = per_k(x) * T(x) + T(g x)            (current row times the periodic value, plus the next row)
   declared as TransitionConstraintDegree::with_cycles(1, [cycle_k]), one single-step assertion
   T(g^s0) = v, e transition exemptions.  With composition coefficients tc_k (transition) and cc
   (boundary) the DEFINITION of the composition trace on the constraint evaluation domain
   x_i = Gen * w^i (w the 2L-th root; blowup 2) is
        comp_i = SUM_k tc_k * C_k(x_i) / Z_e(x_i)  +  cc * (T(x_i) - v) / (x_i - g^s0)
        Z_e(x) = PROD_{s < L - e} (x - g^s)                                  (Divisor.tla)
        per_k(x) = p_k(x^(L / cycle_k))                                      (Periodic.tla)
   Everything is computed here (T is a sparse polynomial, so T(x) is a few powers), nothing depends on
   an unspecified choice (one assertion: the coefficient assignment is forced), so the scenario carries
   the complete expected values and the harness compares them with what
   DefaultConstraintEvaluator::evaluate returned. *)
EXTENDS Periodic

CONSTANTS TECases      \* set of <<P, L>>

VARIABLES case, phase
vars == <<case, phase>>

Init == phase = 0 /\ case \in UNION {{[P |-> pl[1], L |-> pl[2], e |-> e, v |-> v] :
                                        e \in {1, 2, 3, pl[2] \div 4, pl[2] \div 2 + 1}, v \in 1..2} : pl \in TECases}
Next == phase = 0 /\ phase' = 1 /\ UNCHANGED case
Spec == Init /\ [][Next]_vars

Scenario(c) ==
  LET P == c.P  L == c.L  e == c.e
      d == 1 + ((e + c.v + Log2(L)) % 3)
      st == Stream(800 + L, 7 * e + c.v)
      g == RootOfUnity(P, Log2(L))
      w == RootOfUnity(P, Log2(2 * L))
      dom == Mat([s \in 1..L |-> FPow(P, g, s - 1)], L)
      \* periodic columns: cycles 2 and L for variant 1, a seeded cycle and 4 for variant 2
      cyc == IF c.v = 1 THEN <<2, L>> ELSE <<2 ^ (1 + (Rnd(st, 1) % Log2(L))), 4>>
      per == Mat([k \in 1..2 |-> Values(P, L, cyc[k], "rnd", st + k)], 2)
      pp == Mat([k \in 1..2 |-> Coef(P, per[k])], 2)
      \* trace polynomial: 5 terms
      tp == Mat([t \in 1..5 |-> [pos |-> IF t = 1 THEN L - 1 ELSE Rnd(st, 20 + t) % L, val |-> 1 + (Rnd(st, 30 + t) % (P - 1))]], 5)
      T(x) == FoldLeft(LAMBDA acc, t : (acc + t.val * FPow(P, x, t.pos)) % P, 0, tp)
      s0 == Rnd(st, 40) % L
      v == Rnd(st, 41) % P
      ncs == IF L <= 64 THEN 2 * L ELSE 16
      cidx == Mat([i \in 1..ncs |-> IF L <= 64 THEN i - 1 ELSE Rnd(st, 100 + i) % (2 * L)], ncs)
      xs == Mat([i \in 1..ncs |-> FMul(P, Gen(P), FPow(P, w, cidx[i]))], ncs)
      Ze(x) == FoldLeft(LAMBDA acc, s : (acc * ((x + P - s) % P)) % P, 1, SubSeq(dom, 1, L - e))
      tc == Mat([k \in 1..2 |-> LET r == RElem(P, d, st, 50 + k) IN IF r = EZero(d) THEN EOne(d) ELSE r], 2)
      cc == LET r == RElem(P, d, st, 60) IN IF r = EZero(d) THEN EOne(d) ELSE r
      C(k, x) == (ColAtB(P, L, pp[k], x) * T(x) + T(FMul(P, g, x))) % P
      Comp(x) == LET zi == FInv(P, Ze(x))
                     bi == FInv(P, (x + P - dom[s0 + 1]) % P)
                 IN EAdd(P, EAdd(P, EMulBase(P, tc[1], FMul(P, C(1, x), zi)), EMulBase(P, tc[2], FMul(P, C(2, x), zi))),
                            EMulBase(P, cc, FMul(P, (T(x) + P - v) % P, bi)))
      JE(x) == IF Len(x) = 1 THEN x[1] ELSE x
  IN [P |-> P, d |-> d, L |-> L, e |-> e, periodic |-> per, cycles |-> cyc,
      trace |-> [s \in 1..L |-> T(dom[s])], step |-> s0, value |-> v,
      tc |-> [k \in 1..2 |-> JE(tc[k])], cc |-> JE(cc), cidx |-> cidx,
      comp |-> [i \in 1..ncs |-> JE(Comp(xs[i]))]]
Emit == phase = 1 => PrintT(<<"REPLAY", ToJson(Scenario(case))>>)
=============================================================================
