------------------------------ MODULE Divisor ------------------------------
(* Constraint divisors over the toy fields of FieldP (C23 transition divisor, C22 assertion divisors).

   DENOTATION.  g = RootOfUnity(P, log2 L) generates the trace domain {g^s : 0 <= s < L}.
     the divisor of a step set S is            Z_S(x) = PROD_{s in S} (x - g^s)
     transition divisor with e exemptions:     S = {0 .. L-e-1}   (all steps but the last e), degree L-e
     divisor of an assertion:                  S = its asserted steps, degree |S|
   so "vanishes exactly on S, degree |S|" holds by construction and the zero set over the trace domain
   is {s : s in S}.  The expected VALUE of the divisor at any point x (trace domain, the coset
   offset * <g>, every element of F_97, toy-extension points) is Z_S(x), computed here with exact
   arithmetic.  A function that equals Z_S at more than L points outside the exempted steps IS Z_S,
   so agreement on those points pins the zeros (exactly S) and the degree.

   The documentation of ConstraintDivisor gives closed forms; TLC checks (design level) that they are
   the same functions:
     DocTransition   (x^L - 1) = Z_{0..L-e-1}(x) * PROD_{i=1..e} (x - g^(L-i))     at every point
     DocAssertion    x^k - g^(a*k) = Z_S(x) for S = {a + j*(L/k) : j < k}            at every point

   At an exempted step the closed form (x^L - 1) / PROD (x - g^(L-i)) is 0/0; the polynomial it stands
   for is NOT zero there.  Scenarios mark those points (pole = TRUE): an implementation that keeps the
   quotient representation may return 0 there (field inversion maps 0 to 0) — that is a property of
   the representation, not of the divisor, and the harness accepts either Z_S(x) or
   "0 and evaluate_exemptions_at(x) = 0" at exactly those points.

   This module holds the definitions; GenDivisor.tla is the generator for the transition divisor
   (one case per (P, L): the points, and for every e in 1 .. L/2 + 1 the degree and the values of the
   divisor at every point — prefix products, so all e share the work); Boundary.tla uses ZSteps for
   the divisors of assertion groups. *)
EXTENDS PolyP, Rand, TLC, Json, FiniteSets

\* (Mat, from Rand: SubSeq(f, 1, n) forces TLC to build a sequence once)
Log2(n) == CHOOSE k \in 0..13 : 2 ^ k = n
G(P, L) == RootOfUnity(P, Log2(L))
\* trace domain as a sequence: index s + 1 holds g^s
TraceDomain(P, L) == LET g == G(P, L) IN Mat([i \in 1..L |-> FPow(P, g, i - 1)], L)

(***************************************************************************)
(* the divisor of a step set, at base-field and at extension points        *)
(***************************************************************************)
\* PROD over a sequence of steps of (x - g^s), x an extension tuple of degree d
RECURSIVE ZAt(_, _, _, _, _)
ZAt(P, dom, steps, x, i) ==
  IF i > Len(steps) THEN EOne(Len(x))
  ELSE EMul(P, ESub(P, x, EFromBase(Len(x), dom[steps[i] + 1])), ZAt(P, dom, steps, x, i + 1))
ZSteps(P, dom, steps, x) == ZAt(P, dom, steps, x, 1)

\* prefix products for the transition divisor: Pref[k + 1] = PROD_{s < k} (x - g^s), k = 0..L
RECURSIVE PrefFrom(_, _, _, _, _)
PrefFrom(P, dom, x, k, acc) ==
  IF k > Len(dom) THEN <<acc>>
  ELSE <<acc>> \o PrefFrom(P, dom, x, k + 1, EMul(P, acc, ESub(P, x, EFromBase(Len(x), dom[k]))))
Prefixes(P, dom, x) == PrefFrom(P, dom, x, 1, EOne(Len(x)))
\* suffix products: Suf[k + 1] = PROD_{s >= k} (x - g^s), k = 0..L
RECURSIVE SufFrom(_, _, _, _)
SufFrom(P, dom, x, k) ==
  IF k > Len(dom) THEN <<EOne(Len(x))>>
  ELSE LET rest == SufFrom(P, dom, x, k + 1)
       IN <<EMul(P, Head(rest), ESub(P, x, EFromBase(Len(x), dom[k])))>> \o rest

\* the documented closed form of an assertion divisor: x^k - g^(a*k), k steps starting at step a
DocAssertionForm(P, L, a, k, x) ==
  ESub(P, EPow(P, x, k), EFromBase(Len(x), FPow(P, G(P, L), (a * k) % L)))
=============================================================================
