\* C22 quick: all pairs at L = 8 over F_97, every shape at L = 16, seeded sets, long sequences.
SPECIFICATION Spec
CONSTANTS Fams = {"pair", "each", "rand", "long"}  NRand = 8  AllAux = FALSE  LongLens = {128, 256, 512}
INVARIANT Valid ValueInterp DocDivisor Emit
CHECK_DEADLOCK FALSE
