\* option parameters under every non-default pair of batching methods, element size 16
SPECIFICATION Spec
CONSTANTS EB = 16  MetaMaxLen = 31  BinMaxLen = 4
  Vals <- ValsOpt16  Bases <- BasesB  MetaKinds <- AllKinds
INVARIANT SeedShape EmitG
ACTION_CONSTRAINT NoteCollision
CHECK_DEADLOCK FALSE
