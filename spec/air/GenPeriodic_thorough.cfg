SPECIFICATION Spec
CONSTANTS PCases <- PThorough  NSeeds = 4
INVARIANT Interpolates Reproduces Emit
CHECK_DEADLOCK FALSE
