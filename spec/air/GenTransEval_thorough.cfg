SPECIFICATION Spec
CONSTANTS TECases <- TEThorough
INVARIANT Emit
CHECK_DEADLOCK FALSE
