\* C23 quick: every single-constraint context with base 1..8, <= 2 cycles from {2..L}, L in 8..64, and
\* two-constraint contexts over a reduced descriptor set; design invariants + one scenario per context.
SPECIFICATION Spec
CONSTANTS Lens = {8, 16, 32, 64}  MaxBase = 8  PairBases = {1, 2, 5, 8}  Fixed = TRUE
INVARIANT DocDegree BlowupPow2 DefaultAccepted BlowupSuffices ColsHold ColsMinimal ColsFitDomain ColsAsRequired Emit
CHECK_DEADLOCK FALSE
