---------------------------- MODULE ContextSeed ----------------------------
(* C24 — the public-coin seed binds the proof context.

   A context is a record
       mw, aw, ar   main width, auxiliary width, auxiliary random elements
       le           log2 of the trace length
       meta         trace metadata (byte sequence)
       mod          name of the base field whose modulus bytes the context stores ("f62","f64","f128")
       nc           number of constraints
       ext, blow, fold, rem, grind, q   field extension degree, blowup, FRI folding factor,
                    FRI remainder max degree, grinding factor, number of queries
   `Seed(c)` transcribes Context::to_elements / TraceInfo::to_elements / ProofOptions::to_elements
   (air/src/proof/context.rs, air/src/air/trace_info.rs, air/src/options.rs) as a sequence of
   canonical little-endian byte strings of EB bytes (EB = 8 for f62/f64 elements, 16 for f128).

   THE PROPERTY is injectivity: contexts that differ in one of the listed parameters have different
   seed vectors.  The exploration machine changes exactly one parameter per step, so the transitions
   of its state graph are exactly the pairs the property speaks about; `NoteCollision` prints every
   transition whose two seed vectors are equal (it never stops the exploration, all pairs are looked
   at).  The metadata family (MetaFamily) is checked pairwise by MetaCollisions.
   Binding: every explored context is printed with its neighbours and its model seed; the harness
   builds the real contexts, compares the real vectors of every pair (that gates: the property is about
   the real vectors) and compares the real vector with the model's (agreement carries the model-level
   exploration over to the code; a different layout that is still injective is not a violation). *)
EXTENDS Naturals, Sequences, FiniteSets, TLC, Json, SequencesExt, Bytes

CONSTANTS EB,        \* element size in bytes: 8 or 16
          Vals,      \* Vals[p]: the grid values of parameter p
          Bases,     \* initial contexts
          MetaKinds, MetaMaxLen, BinMaxLen   \* the metadata family

VARIABLE ctx
vars == <<ctx>>

Params == {"mw", "aw", "ar", "le", "meta", "mod", "nc", "ext", "blow", "fold", "rem", "grind", "q"}

ModBytes(f) == CASE f = "f64"  -> <<1, 0, 0, 0, 255, 255, 255, 255>>
                 [] f = "f62"  -> <<1, 0, 0, 0, 128, 200, 255, 63>>
                 [] f = "f128" -> <<1, 0, 0, 0, 0, 211, 255, 255, 255, 255, 255, 255, 255, 255, 255, 255>>

Log2(x) == CHOOSE k \in 0..30 : 2 ^ k = x

\* what the constructors accept (TraceInfo::new_multi_segment, ProofOptions::new, Context::new) and
\* what to_elements can encode (each modulus half must be shorter than an element)
Valid(c) ==
  /\ c.mw >= 1 /\ c.mw + c.aw <= 255
  /\ (c.aw = 0 => c.ar = 0) /\ c.ar <= 255
  /\ c.le >= 3 /\ c.le + Log2(c.blow) <= 31
  /\ c.nc >= 1
  /\ Len(ModBytes(c.mod)) \div 2 < EB

(***************************************************************************)
(* The seed vector                                                         *)
(***************************************************************************)
Pad(bs) == PadTo(bs, EB)
U32(n) == LE(n, 4)
Pow2Bytes(k) == [i \in 1..4 |-> IF i = (k \div 8) + 1 THEN 2 ^ (k % 8) ELSE 0]      \* 2^k as a u32

\* first element: (main width, number of aux segments [, aux width, aux rands]) packed into a u32
Layout(c) == IF c.aw = 0 THEN <<0, c.mw, 0, 0>>           \* (mw << 8) | 0
             ELSE <<c.ar, c.aw, 1, c.mw>>                  \* (((mw << 8 | 1) << 8 | aw) << 8) | ar

ChunkLen == EB - 1
NumChunks(m) == (Len(m) + ChunkLen - 1) \div ChunkLen
Chunk(m, i) == SubSeq(m, (i - 1) * ChunkLen + 1, Min2(i * ChunkLen, Len(m)))
MetaElems(m) == [i \in 1..NumChunks(m) |-> Pad(Chunk(m, i))]

ModElems(f) == LET mb == ModBytes(f)  h == Len(mb) \div 2
               IN <<Pad(SubSeq(mb, 1, h)), Pad(SubSeq(mb, h + 1, Len(mb)))>>

OptElems(c) == <<Pad(<<c.blow, c.rem, c.fold, c.ext>>), Pad(<<c.grind>>), Pad(<<c.q>>)>>

Seed(c) == <<Pad(Layout(c)), Pad(Pow2Bytes(c.le))>> \o MetaElems(c.meta) \o ModElems(c.mod)
           \o <<Pad(U32(c.nc))>> \o OptElems(c)

(***************************************************************************)
(* Exploration: change exactly one listed parameter per step                *)
(***************************************************************************)
Neighbours(c) == {<<p, v>> \in UNION {{<<p, v>> : v \in Vals[p]} : p \in Params} :
                    v # c[p] /\ Valid([c EXCEPT ![p] = v])}

Init == ctx \in Bases /\ Valid(ctx)
Next == \E n \in Neighbours(ctx) : ctx' = [ctx EXCEPT ![n[1]] = n[2]]
Spec == Init /\ [][Next]_vars

SeedShape == LET s == Seed(ctx) IN
             /\ Len(s) = 8 + NumChunks(ctx.meta)
             /\ \A i \in 1..Len(s) : Len(s[i]) = EB /\ IsBytes(s[i])
             /\ \A i \in 1..Len(s) : s[i][EB] = 0            \* every encoded value is below 2^(8(EB-1)) < p

\* which parameter differs between two contexts that differ in exactly one
Differing(a, b) == CHOOSE p \in Params : a[p] # b[p]

\* always TRUE; reports the transitions that contradict injectivity at the model level
NoteCollision == (Seed(ctx') = Seed(ctx)) =>
                   PrintT(<<"COLLISION", ToJson([param |-> Differing(ctx, ctx'), a |-> ctx, b |-> ctx'])>>)

\* one line per explored context: the context, its neighbours, the model seed
EmitG == PrintT(<<"REPLAY", ToJson([eb |-> EB, c |-> ctx,
                                     nb |-> SetToSeq({[p |-> n[1], v |-> <<n[2]>>] : n \in Neighbours(ctx)}),
                                     seed |-> Seed(ctx)])>>)

(***************************************************************************)
(* Metadata family                                                         *)
(***************************************************************************)
ByteAt(kind, i) == CASE kind = "zero"  -> 0
                     [] kind = "one"   -> 1
                     [] kind = "first" -> IF i = 1 THEN 1 ELSE 0
                     [] kind = "alt"   -> i % 2
                     [] kind = "edge"  -> IF i % ChunkLen = 0 THEN 1 ELSE 0     \* ones at the chunk ends
MkMeta(kind, n) == [i \in 1..n |-> ByteAt(kind, i)]
RECURSIVE BinStrings(_)
BinStrings(n) == IF n = 0 THEN {<<>>}
                 ELSE LET s == BinStrings(n - 1) IN s \cup {Append(x, b) : x \in {y \in s : Len(y) = n - 1}, b \in {0, 1}}
MetaFamily == {MkMeta(k, n) : k \in MetaKinds, n \in 0..MetaMaxLen} \cup BinStrings(BinMaxLen)

\* every member of the family (on every base context) is an initial state; its "neighbours" are all
\* other members: the pairs of the family
InitM == ctx \in {[b EXCEPT !.meta = m] : b \in Bases, m \in MetaFamily}
SpecM == InitM /\ [][UNCHANGED ctx]_vars
MetaOthers(c) == {m \in MetaFamily : m # c.meta}
\* the seeds of the whole family, evaluated once
FamSeed == [c \in {[b EXCEPT !.meta = m] : b \in Bases, m \in MetaFamily} |-> Seed(c)]
NoteMetaCollisions ==
  \A m \in MetaOthers(ctx) : (FamSeed[[ctx EXCEPT !.meta = m]] = FamSeed[ctx]) =>
      PrintT(<<"COLLISION", ToJson([param |-> "meta", a |-> ctx, b |-> [ctx EXCEPT !.meta = m]])>>)
\* model-level characterisation: two metadata strings give the same seed exactly when they occupy the
\* same number of chunks and differ only by trailing zero bytes
CollisionsAreTrailingZeros ==
  \A m \in MetaOthers(ctx) : (FamSeed[[ctx EXCEPT !.meta = m]] = FamSeed[ctx])
                                <=> (NumChunks(m) = NumChunks(ctx.meta) /\ Trim(m) = Trim(ctx.meta))
EmitM == PrintT(<<"REPLAY", ToJson([eb |-> EB, c |-> ctx,
                                     nb |-> SetToSeq({[p |-> "meta", v |-> <<m>>] : m \in MetaOthers(ctx)}),
                                     seed |-> Seed(ctx)])>>)
=============================================================================
