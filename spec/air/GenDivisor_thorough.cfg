SPECIFICATION Spec
CONSTANTS TCases <- TThorough
INVARIANT DocTransition ZeroSet Emit
CHECK_DEADLOCK FALSE
