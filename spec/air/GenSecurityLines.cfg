SPECIFICATION SpecL
CONSTANTS MaxQ = 255
  OtherBlowups <- SomeBlowups  OtherGrindings <- FewGrindings
  Blowups <- AllBlowups  Exts <- AllExts  Grindings <- SomeGrindings  FieldBits <- AllFieldBits  CRs <- AllCRs
INVARIANT EmitL
CHECK_DEADLOCK FALSE
