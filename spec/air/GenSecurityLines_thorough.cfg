SPECIFICATION SpecL
CONSTANTS MaxQ = 255
  Blowups <- AllBlowups  Exts <- AllExts  Grindings <- AllGrindings  FieldBits <- AllFieldBits  CRs <- AllCRs
INVARIANT EmitL
CHECK_DEADLOCK FALSE
