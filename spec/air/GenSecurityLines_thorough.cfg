SPECIFICATION SpecL
CONSTANTS MaxQ = 255
  OtherBlowups <- AllBlowups  OtherGrindings <- SomeGrindings
  Blowups <- AllBlowups  Exts <- AllExts  Grindings <- AllGrindings  FieldBits <- AllFieldBits  CRs <- AllCRs
INVARIANT EmitL
CHECK_DEADLOCK FALSE
