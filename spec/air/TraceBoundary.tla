---------------------------- MODULE TraceBoundary ----------------------------
(* C22, mechanism B — validation of what the real BoundaryConstraints::new did with the composition
   coefficients.  One event per scenario of Boundary.tla:
       P, d        field and extension degree of E
       n           number of assertions (main first, then auxiliary)
       cc          the coefficients supplied (elements of E, pairwise distinct)
       seg, steps  per assertion: 0 = main / 1 = auxiliary, asserted steps
       num, z      per assertion and out-of-domain point t: C_a(x_t, state[col_a]) and Z_a(x_t)
                   (computed by Boundary.tla, confirmed on the real constraints by the harness)
       assign      per permutation of the assertion lists: assertion -> index of the coefficient the
                   real constraint carried (read with BoundaryConstraint::cc())
       groups      real groups of the first permutation: members (assertion indexes) and the value of
                   BoundaryConstraintGroup::evaluate_at(state, x_t) for every t
       cnum, cz    per assertion and coset step i: T_col(x_i) - b_a(x_i) and Z_a(x_i) (Boundary.tla), where T
                   is the trace polynomial of the asserted column in the trace handed to the prover
       blowups, comp   the prover's composition trace (DefaultConstraintEvaluator::evaluate, all transition
                   constraints identically zero) at those coset steps, one vector per option (LDE) blowup
                   — the constraint evaluation domain, hence the definition, does not depend on it;
                   <<>> when the evaluator was not run
   An event is explained iff
       Bijection     every permutation's assignment uses every coefficient exactly once
       OrderFree     all permutations give the same assignment                 (the property)
       Partition     the groups partition the assertions; members of a group lie in one segment and
                     share their asserted steps (one divisor per group)
       GroupValue    value = (SUM_{a in group} cc[assign[a]] * C_a(x_t, state)) / Z(x_t)   by definition
       CompValue     comp_i = SUM_a cc[assign[a]] * (T_col(x_i) - b_a(x_i)) / Z_a(x_i)    (prover's evaluator)
   Why(e) names the first conjunct that fails; it is printed with the index of the rejected event. *)
EXTENDS FieldP, TLC, Json, IOUtils, FiniteSets

Rec == ndJsonDeserialize(IOEnv.TRACE)

VARIABLE l
vars == <<l>>

El(v, d) == IF d = 1 THEN <<v>> ELSE v
Range(s) == {s[i] : i \in 1..Len(s)}

Bijection(e) == \A p \in 1..Len(e.assign) : Len(e.assign[p]) = e.n /\ Range(e.assign[p]) = 1..e.n
OrderFree(e) == \A p \in 1..Len(e.assign) : e.assign[p] = e.assign[1]
Partition(e) ==
  /\ \A a \in 1..e.n : Cardinality({g \in 1..Len(e.groups) : a \in Range(e.groups[g].members)}) = 1
  /\ \A g \in 1..Len(e.groups) :
       LET m == e.groups[g].members IN
       /\ Len(m) >= 1
       /\ Cardinality(Range(m)) = Len(m)
       /\ \A i \in 1..Len(m) : e.seg[m[i]] = e.seg[m[1]] /\ e.steps[m[i]] = e.steps[m[1]]
RECURSIVE Sum(_, _, _, _)
Sum(e, m, t, i) ==
  IF i > Len(m) THEN EZero(e.d)
  ELSE EAdd(e.P, EMul(e.P, El(e.cc[e.assign[1][m[i]]], e.d), El(e.num[m[i]][t], e.d)), Sum(e, m, t, i + 1))
GroupValue(e) ==
  \A g \in 1..Len(e.groups) :
    LET m == e.groups[g].members IN
    \A t \in 1..Len(e.groups[g].vals) :
      El(e.groups[g].vals[t], e.d) = EDiv(e.P, Sum(e, m, t, 1), El(e.z[m[1]][t], e.d))

Base(v, d) == [t \in 1..d |-> IF t = 1 THEN v ELSE 0]
RECURSIVE CSum(_, _, _)
CSum(e, i, a) ==
  IF a > e.n THEN EZero(e.d)
  ELSE EAdd(e.P, EDiv(e.P, EMul(e.P, El(e.cc[e.assign[1][a]], e.d), El(e.cnum[a][i], e.d)), Base(e.cz[a][i], e.d)), CSum(e, i, a + 1))
CompOk(e, k) == \A i \in 1..Len(e.comp[k]) : El(e.comp[k][i], e.d) = CSum(e, i, 1)
CompValue(e) == \A k \in 1..Len(e.comp) : CompOk(e, k)
FirstBadBlowup(e) == e.blowups[CHOOSE k \in 1..Len(e.comp) : ~CompOk(e, k) /\ \A j \in 1..(k - 1) : CompOk(e, j)]

Explains(e) == Bijection(e) /\ OrderFree(e) /\ Partition(e) /\ GroupValue(e) /\ CompValue(e)
Why(e) == IF ~Bijection(e) THEN "Bijection" ELSE IF ~OrderFree(e) THEN "OrderFree"
          ELSE IF ~Partition(e) THEN "Partition" ELSE IF ~GroupValue(e) THEN "GroupValue"
          ELSE IF ~CompValue(e) THEN "CompValue_lde_blowup_" \o ToString(FirstBadBlowup(e)) ELSE "explained"

Init == l = 1
Next == l <= Len(Rec) /\ Explains(Rec[l]) /\ l' = l + 1
Spec == Init /\ [][Next]_vars

Progress == TLCSet(7, l)
Accepted == IF TLCGet(7) = Len(Rec) + 1 THEN TRUE
            ELSE /\ PrintT(<<"WHY", TLCGet(7), Why(Rec[TLCGet(7)])>>)
                 /\ Print(<<"REJECTED_AT", TLCGet(7)>>, FALSE)
=============================================================================
