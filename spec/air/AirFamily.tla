----------------------------- MODULE AirFamily -----------------------------
(* A data-described family of AIRs (algebraic intermediate representations) and its meaning.

   A description `d` is a record
     [width, log_len, shapes, pcyc, init, exemptions, asserts, aux, meta, extra]
   * shapes[j]  names the next-state function of main column j (see ShapeTerms): the transition
                constraint of column j is   next[j] - F_j(current row, periodic values) = 0
                on every step 0 .. L - exemptions - 1;
   * pcyc       cycle lengths of the periodic columns (values PerValue(k, i));
   * init       first row; * asserts  assertions whose VALUES are those of the honest trace;
   * aux        <<>> or <<[width, rands, src]>>: running-product auxiliary columns
                aux[m][i+1] = aux[m][i] * (main[src[m]][i] + r[m % rands] + p_0(i)),  aux[m][0] = 1,
                where p_0 is the first periodic column (0 if the AIR has none).
   * extra      sequence of column indexes: the transition constraint of each listed column is stated
                once more, AHEAD of the per-column constraints (constraint list = extras, then one per
                column). The duplicates do not change which traces are valid; they make the number of
                constraints exceed the number of columns and move the per-column constraints off the
                positions equal to their column index.
   The harness' GenAir (harness/stark/src/genair.rs) interprets the JSON form (DescJson) as a
   winterfell `Air`; this module owns what a description MEANS: the honest trace, the value of every
   constraint on every row, which (trace, public values) pairs are valid. Over the toy fields the
   whole trace is computed here with FieldP; over the real fields rows are logged by the harness. *)
EXTENDS Integers, Sequences, FiniteSets, FieldP

Shapes == {"id", "sum", "mul2", "cube", "d5", "per", "mulper", "pcol", "mul2per2"}

\* terms of F_j: sequence of [k, v] with v a sequence of <<kind, index>> (0-based indexes, as in JSON)
C(i) == <<"c", i>>
Pv(i) == <<"p", i>>
ShapeTerms(shape, j, w) ==
  LET n == (j + 1) % w IN
  CASE shape = "id"      -> << [k |-> 1, v |-> <<C(j)>>] >>
    [] shape = "sum"     -> << [k |-> 1, v |-> <<C(j)>>], [k |-> 1, v |-> <<C(n)>>] >>
    [] shape = "mul2"    -> << [k |-> 1, v |-> <<C(j), C(n)>>], [k |-> 3, v |-> <<>>] >>
    [] shape = "cube"    -> << [k |-> 1, v |-> <<C(j), C(j), C(j)>>], [k |-> 1, v |-> <<C(n)>>] >>
    [] shape = "d5"      -> << [k |-> 2, v |-> <<C(j), C(j), C(j), C(j), C(n)>>], [k |-> 1, v |-> <<>>] >>
    [] shape = "per"     -> << [k |-> 1, v |-> <<C(j)>>], [k |-> 1, v |-> <<Pv(0)>>] >>
    [] shape = "mulper"  -> << [k |-> 1, v |-> <<C(j), C(n), Pv(0)>>], [k |-> 7, v |-> <<>>] >>
    [] shape = "pcol"    -> << [k |-> 1, v |-> <<Pv(0)>>] >>
    [] shape = "mul2per2" -> << [k |-> 1, v |-> <<C(j), C(n), Pv(0), Pv(1)>>], [k |-> 1, v |-> <<C(j)>>] >>

\* periodic columns a shape needs
ShapePeriodics(shape) == CASE shape \in {"per", "mulper", "pcol"} -> 1
                           [] shape = "mul2per2" -> 2
                           [] OTHER -> 0
\* declared degree = that of the dominant (first) term: base = its number of trace variables (at least
\* 1, for next[j]), cycles = those of the periodic variables it contains
ShapeBase(shape) == CASE shape \in {"id", "sum", "per", "pcol"} -> 1
                      [] shape \in {"mul2", "mulper", "mul2per2"} -> 2
                      [] shape = "cube" -> 3
                      [] shape = "d5" -> 5
ShapeNumCycles(shape) == ShapePeriodics(shape)

\* values of periodic column k (cycle c): small distinct numbers
PerValue(k, c, i) == ((i % c) * (k + 2) + k + 1) % 97
PerColumn(k, c) == [i \in 1..c |-> PerValue(k, c, i - 1)]

NumPeriodic(d) == Len(d.pcyc)

DescJson(d) ==
  [width |-> d.width, log_len |-> d.log_len,
   cols |-> [j \in 1..d.width |-> ShapeTerms(d.shapes[j], j - 1, d.width)],
   periodic |-> [k \in 1..Len(d.pcyc) |-> PerColumn(k - 1, d.pcyc[k])],
   init |-> d.init, exemptions |-> d.exemptions, asserts |-> d.asserts,
   aux |-> d.aux, meta |-> d.meta, extra |-> d.extra]

(***************************************************************************)
(* Declared degrees and the bounds the AIR context enforces (records with   *)
(* fields log_len, width, shapes, pcyc, aux, exemptions)                    *)
(***************************************************************************)
DMax(a, b) == IF a > b THEN a ELSE b
RECURSIVE DNextPow2From(_, _)
DNextPow2From(n, p) == IF p >= n THEN p ELSE DNextPow2From(n, 2 * p)
DLen(c) == 2 ^ c.log_len
DHasAux(c) == c.aux # <<>>
CycleDeg(c, k) == (DLen(c) \div c.pcyc[k]) * (c.pcyc[k] - 1)
MainEvalDegree(c, j) ==
  LET sh == c.shapes[j] IN
  ShapeBase(sh) * (DLen(c) - 1)
    + (IF ShapeNumCycles(sh) >= 1 THEN CycleDeg(c, 1) ELSE 0)
    + (IF ShapeNumCycles(sh) >= 2 THEN CycleDeg(c, 2) ELSE 0)
MainMinBlowup(c, j) == DMax(DNextPow2From(ShapeBase(c.shapes[j]) + ShapeNumCycles(c.shapes[j]) - 1, 1), 2)
AuxEvalDegree(c) == 2 * (DLen(c) - 1)
RECURSIVE MaxOver(_, _, _)
MaxOver(F(_), n, i) == IF i > n THEN 0 ELSE DMax(F(i), MaxOver(F, n, i + 1))
CeBlowup(c) == LET m(j) == MainMinBlowup(c, j) IN DMax(MaxOver(m, c.width, 1), IF DHasAux(c) THEN 2 ELSE 0)
MaxEvalDegree(c) == LET e(j) == MainEvalDegree(c, j) IN DMax(MaxOver(e, c.width, 1), IF DHasAux(c) THEN AuxEvalDegree(c) ELSE 0)
\* AirContext::set_num_transition_exemptions
ExemptionsOk(c) ==
  /\ c.exemptions >= 1
  /\ c.exemptions <= DLen(c) \div 2 + 1
  /\ \A j \in 1..c.width : c.exemptions <= (DLen(c) * CeBlowup(c) - 1) + DLen(c) - MainEvalDegree(c, j)
  /\ DHasAux(c) => c.exemptions <= (DLen(c) * CeBlowup(c) - 1) + DLen(c) - AuxEvalDegree(c)

(***************************************************************************)
(* Meaning over a toy field P                                              *)
(***************************************************************************)
RECURSIVE TermProd(_, _, _, _, _)
TermProd(P, vs, i, cur, per) ==
  IF i > Len(vs) THEN 1
  ELSE LET x == IF vs[i][1] = "c" THEN cur[vs[i][2] + 1] ELSE per[vs[i][2] + 1]
       IN FMul(P, x, TermProd(P, vs, i + 1, cur, per))
RECURSIVE TermsSum(_, _, _, _, _)
TermsSum(P, ts, i, cur, per) ==
  IF i > Len(ts) THEN 0
  ELSE FAdd(P, FMul(P, ts[i].k % P, TermProd(P, ts[i].v, 1, cur, per)), TermsSum(P, ts, i + 1, cur, per))

NextRow(P, d, cur, step) ==
  LET per == [k \in 1..Len(d.pcyc) |-> PerValue(k - 1, d.pcyc[k], step) % P]
  IN [j \in 1..d.width |-> TermsSum(P, ShapeTerms(d.shapes[j], j - 1, d.width), 1, cur, per)]

RECURSIVE RowsFrom(_, _, _, _, _)
RowsFrom(P, d, cur, step, n) == IF n = 0 THEN <<>> ELSE <<cur>> \o RowsFrom(P, d, NextRow(P, d, cur, step), step + 1, n - 1)
\* the honest main trace as a sequence of rows (row i+1 = step i)
HonestRows(P, d) == RowsFrom(P, d, [j \in 1..d.width |-> d.init[j] % P], 0, 2 ^ d.log_len)

\* steps an assertion applies to
ASteps(a, L) == CASE a.t = "single"   -> {a.step}
                  [] a.t = "periodic" -> {a.first + k * a.stride : k \in 0..((L \div a.stride) - 1)}
                  [] a.t = "seq"      -> {a.first + k * a.stride : k \in 0..(a.n - 1)}
ACells(a, L) == {<<a.col, s>> : s \in ASteps(a, L)}

\* value an assertion demands at step s given the flattened public values starting at offset o
\* (single/periodic: one value; seq: n values)
ANumValues(a) == IF a.t = "seq" THEN a.n ELSE 1
RECURSIVE AOffset(_, _)
AOffset(as, i) == IF i = 1 THEN 0 ELSE AOffset(as, i - 1) + ANumValues(as[i - 1])
AValueAt(a, o, vals, s) == IF a.t = "seq" THEN vals[o + ((s - a.first) \div a.stride) + 1] ELSE vals[o + 1]

\* public values of the honest trace
RECURSIVE HonestValues(_, _, _, _)
HonestValues(d, rows, i, acc) ==
  IF i > Len(d.asserts) THEN acc
  ELSE LET a == d.asserts[i] IN
       HonestValues(d, rows, i + 1,
         acc \o (IF a.t = "seq" THEN [k \in 1..a.n |-> rows[a.first + (k - 1) * a.stride + 1][a.col + 1]]
                 ELSE IF a.t = "single" THEN <<rows[a.step + 1][a.col + 1]>>
                 ELSE <<rows[a.first + 1][a.col + 1]>>))

\* THE validity predicate (main segment): every assertion holds and every transition constraint is
\* zero on every non-exempt step
AssertionsHold(d, rows, vals) ==
  LET L == 2 ^ d.log_len IN
  \A i \in 1..Len(d.asserts) :
     \A s \in ASteps(d.asserts[i], L) :
        rows[s + 1][d.asserts[i].col + 1] = AValueAt(d.asserts[i], AOffset(d.asserts, i), vals, s)
TransitionsHold(P, d, rows) ==
  LET L == 2 ^ d.log_len IN
  \A s \in 0..(L - d.exemptions - 1) : rows[s + 2] = NextRow(P, d, rows[s + 1], s)
ValidMain(P, d, rows, vals) == AssertionsHold(d, rows, vals) /\ TransitionsHold(P, d, rows)

(***************************************************************************)
(* Auxiliary segment (running products) over a toy field, base-field rands *)
(***************************************************************************)
\* aux rows as a sequence of rows; a[m][0] = 1, a[m][i+1] = a[m][i] * (main[src[m]][i] + r[m % rands])
\* value of the first periodic column at step i (0 without periodic columns)
AuxPer(P, d, i) == IF Len(d.pcyc) = 0 THEN 0 ELSE PerValue(0, d.pcyc[1], i) % P
AuxFactor(P, d, rows, rands, m, i) ==
  FAdd(P, FAdd(P, rows[i + 1][d.aux[1].src[m] + 1], rands[((m - 1) % d.aux[1].rands) + 1]), AuxPer(P, d, i))
RECURSIVE AuxRowsFrom(_, _, _, _, _, _)
AuxRowsFrom(P, d, rows, rands, cur, i) ==
  IF i >= Len(rows) THEN <<cur>>
  ELSE <<cur>> \o AuxRowsFrom(P, d, rows, rands,
                    [m \in 1..d.aux[1].width |-> FMul(P, cur[m], AuxFactor(P, d, rows, rands, m, i - 1))], i + 1)
HonestAuxRows(P, d, rows, rands) ==
  AuxRowsFrom(P, d, rows, rands, [m \in 1..d.aux[1].width |-> 1], 1)
ValidAux(P, d, rows, arows, rands) ==
  LET ad == d.aux[1]  L == 2 ^ d.log_len IN
  /\ \A m \in 1..ad.width : arows[1][m] = 1
  /\ \A s \in 0..(L - d.exemptions - 1) : \A m \in 1..ad.width :
        arows[s + 2][m] = FMul(P, arows[s + 1][m], AuxFactor(P, d, rows, rands, m, s))

(***************************************************************************)
(* Corruptions of the honest trace and their structural classification     *)
(***************************************************************************)
\* corruption: [kind, col, row, delta, idx]; kinds: none | cell | row | col | pub | aux | auxscale
\* (auxscale: the whole auxiliary column `col` multiplied by 2 — every auxiliary transition constraint
\*  still holds, only the assertion aux[col][0] = 1 is violated)
ApplyCorruption(P, d, rows, k) ==
  CASE k.kind = "cell" -> [i \in 1..Len(rows) |-> [j \in 1..d.width |->
                              IF i = k.row + 1 /\ j = k.col + 1 THEN FAdd(P, rows[i][j], k.delta % P) ELSE rows[i][j]]]
    [] k.kind = "row"  -> [i \in 1..Len(rows) |-> [j \in 1..d.width |->
                              IF i = k.row + 1 THEN FAdd(P, rows[i][j], (k.delta + j - 1) % P) ELSE rows[i][j]]]
    [] k.kind = "col"  -> [i \in 1..Len(rows) |-> [j \in 1..d.width |->
                              IF j = k.col + 1 THEN FAdd(P, rows[i][j], (k.delta + i - 1) % P) ELSE rows[i][j]]]
    [] OTHER -> rows

AllAssertedCells(d) == UNION {ACells(d.asserts[i], 2 ^ d.log_len) : i \in 1..Len(d.asserts)}

\* Structural classification, valid in EVERY field whose characteristic exceeds the deltas used:
\*  - a changed cell in a row that is the `next` row of a non-exempt step (rows 1 .. L - e) breaks the
\*    constraint of its own column at that step, because next[c] moved and F_c(previous row) did not;
\*  - a changed asserted cell breaks the assertion;
\*  - a change confined to rows L-e+1 .. L-1 (never a `next` row of a constrained step, `current` row of
\*    exempt steps only) in un-asserted cells leaves the instance satisfied.
CertainUnsat(d, k) ==
  LET L == 2 ^ d.log_len IN
  CASE k.kind = "cell" -> (k.delta % 97 # 0) /\ ((k.row >= 1 /\ k.row <= L - d.exemptions) \/ <<k.col, k.row>> \in AllAssertedCells(d))
    [] k.kind = "row"  -> (k.row >= 1 /\ k.row <= L - d.exemptions)
    [] k.kind = "col"  -> \E s \in 0..(L - 1) : <<k.col, s>> \in AllAssertedCells(d) /\ (k.delta + s) % 97 # 0
    [] k.kind = "pub"  -> TRUE
    [] k.kind = "aux"  -> k.row <= L - d.exemptions
    [] k.kind = "auxscale" -> TRUE
    [] OTHER -> FALSE
CertainSat(d, k) ==
  LET L == 2 ^ d.log_len IN
  CASE k.kind = "none" -> TRUE
    [] k.kind = "cell" -> k.row > L - d.exemptions /\ <<k.col, k.row>> \notin AllAssertedCells(d)
    [] k.kind = "row"  -> k.row > L - d.exemptions /\ \A j \in 0..(d.width - 1) : <<j, k.row>> \notin AllAssertedCells(d)
    [] OTHER -> FALSE
=============================================================================
