\* The column count AS FOUND in the pinned tree (ceil(CompDegree / L)): TLC is expected to report
\* ColsHold violated (base 2, e = 2: CompDegree = L needs L + 1 coefficients). Design-level, not a gate;
\* the tree was repaired (known_findings F: "count the constant coefficient").
SPECIFICATION Spec
CONSTANTS Lens = {8, 16}  MaxBase = 4  PairBases = {1, 2}  Fixed = FALSE
INVARIANT ColsHold
CHECK_DEADLOCK FALSE
