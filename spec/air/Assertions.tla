----------------------------- MODULE Assertions -----------------------------
(* C21 — assertion step sets and overlap detection are exact.

   DENOTATIONAL layer (the oracle).  An assertion is the constructor call that made it:
       [k, col, first, stride, n]     k in {"single","periodic","sequence"}, n = number of values.
   `Kind` normalises a one-value sequence to a single assertion (the constructor does that and it is
   observable through is_single()).  For a trace length L:
       Fits(a, L)   the documented rule of validate_trace_length
       Steps(a, L)  the documented arithmetic progression
       Cells(a, L)  {<<col, step>>}
       Overlap      a.col = b.col /\ Steps(a) \cap Steps(b) # {}  on a length both fit.
   Overlap is reported by the real API without a trace length; `LIndependent` (checked by TLC) shows the
   set-based answer is the same for every length both assertions fit, so the expected value is well
   defined; pairs with no common length carry expectation 2 = "not constrained by the property".

   CODE-SHAPED layer.  `CodeOverlap` transcribes the case analysis of Assertion::overlaps_with;
   `CodeRefines` (TLC, design level) says it equals the set-based definition on every pair of the
   universe.  It never produces expectations.

   GENERATORS.  Every assertion of the universe (all constructor calls with all parameters <= LMax)
   is one initial state; the always-true invariant EmitA prints its scenario line: the table over
   TestLens of (fits, steps-with-values passed to `apply`) and the overlap codes against the whole
   universe.  EmitS prints accept/reject expectations for small assertion lists handed to
   BoundaryConstraints::new (prepare_assertions); EmitC prints constructor accept/reject classes. *)
EXTENDS Naturals, Sequences, FiniteSets, TLC, Json, SequencesExt

CONSTANTS LMax,       \* universe bound (a power of two)
          Cols,       \* columns of the universe
          TestLens,   \* trace lengths every assertion is validated / applied against
          SetLen,     \* prepare_assertions cases: trace length ...
          SetWidth    \* ... and trace width

VARIABLE case
vars == <<case>>

(***************************************************************************)
(* Denotation                                                              *)
(***************************************************************************)
Pow2Set == {2 ^ i : i \in 0..30}
IsPow2(x) == x \in Pow2Set

Single(c, s)         == [k |-> "single",   col |-> c, first |-> s, stride |-> 0, n |-> 1]
Periodic(c, f, t)    == [k |-> "periodic", col |-> c, first |-> f, stride |-> t, n |-> 1]
SequenceA(c, f, t, m) == [k |-> "sequence", col |-> c, first |-> f, stride |-> t, n |-> m]
\* a sequence assertion whose m values are all EQUAL (the constructor call Assertion::sequence with a
\* constant vector): still a sequence — it fits exactly the length m * stride
ConstSeq(c, f, t, m)  == [k |-> "cseq", col |-> c, first |-> f, stride |-> t, n |-> m]
IsSeq(a) == a.k \in {"sequence", "cseq"}

\* documented constructor preconditions
Constructible(a) ==
  CASE a.k = "single"   -> TRUE
    [] a.k = "periodic" -> IsPow2(a.stride) /\ a.stride >= 2 /\ a.first < a.stride
    [] IsSeq(a)         -> IsPow2(a.stride) /\ a.stride >= 2 /\ a.first < a.stride
                           /\ a.n >= 1 /\ IsPow2(a.n)

Kind(a) == IF IsSeq(a) THEN (IF a.n = 1 THEN "single" ELSE "sequence") ELSE a.k

Fits(a, L) ==
  /\ IsPow2(L)
  /\ CASE Kind(a) = "single"   -> a.first < L
       [] Kind(a) = "periodic" -> a.stride <= L
       [] Kind(a) = "sequence" -> a.n * a.stride = L

NumSteps(a, L) ==
  CASE Kind(a) = "single"   -> 1
    [] Kind(a) = "periodic" -> L \div a.stride
    [] Kind(a) = "sequence" -> a.n

Steps(a, L) ==
  IF Kind(a) = "single" THEN {a.first}
  ELSE {a.first + k * a.stride : k \in 0..(NumSteps(a, L) - 1)}

Cells(a, L) == {<<a.col, s>> : s \in Steps(a, L)}

\* the value asserted at the k-th step (k from 0): the harness builds assertions with these values
Val(a, k) == IF a.k = "sequence" THEN 100 + k ELSE 7

\* what `apply` hands to its closure, sorted by step: <<step, value>>
Applied(a, L) ==
  IF Kind(a) = "single" THEN << <<a.first, Val(a, 0)>> >>
  ELSE [j \in 1..NumSteps(a, L) |-> <<a.first + (j - 1) * a.stride, Val(a, IF Kind(a) = "sequence" THEN j - 1 ELSE 0)>>]

OverlapAt(a, b, L) == Cells(a, L) \cap Cells(b, L) # {}
\* the same thing without building the pairs (a speed-up only; OverlapSame checks the equivalence)
OverlapFast(a, b, L) == a.col = b.col /\ Steps(a, L) \cap Steps(b, L) # {}

(***************************************************************************)
(* Universe                                                                *)
(***************************************************************************)
Pows(lo, hi) == {x \in lo..hi : IsPow2(x)}
Strides == Pows(2, LMax)

Universe ==
  {Single(c, s) : c \in Cols, s \in 0..(LMax - 1)}
  \cup UNION {{Periodic(c, f, t) : c \in Cols, f \in 0..(t - 1)} : t \in Strides}
  \cup UNION {UNION {{SequenceA(c, f, t, m) : c \in Cols, f \in 0..(t - 1)}
                     : m \in {x \in Pows(1, LMax) : x * t <= LMax}} : t \in Strides}
  \cup UNION {UNION {{ConstSeq(c, f, t, m) : c \in Cols, f \in {0, t - 1}}
                     : m \in {x \in Pows(2, LMax) : x * t <= LMax}} : t \in Strides}

KindNo(a) == CASE a.k = "single" -> 0 [] a.k = "periodic" -> 1 [] a.k = "sequence" -> 2 [] a.k = "cseq" -> 3
Key(a) == <<KindNo(a), a.col, a.stride, a.n, a.first>>
LexLess(x, y) == \E i \in 1..5 : x[i] < y[i] /\ \A j \in 1..(i - 1) : x[j] = y[j]
U == SetToSortSeq(Universe, LAMBDA a, b : LexLess(Key(a), Key(b)))
N == Len(U)

\* lengths on which overlap is defined: powers of two up to 2*LMax
PowLens == Pows(1, 2 * LMax)
FitLens(a) == {L \in PowLens : Fits(a, L)}
FL == [i \in 1..N |-> FitLens(U[i])]                 \* constant tables, evaluated once by TLC
Common(a, b) == FitLens(a) \cap FitLens(b)
MinOf(S) == CHOOSE x \in S : \A y \in S : x <= y

\* 0 / 1 = the property fixes the answer; 2 = no trace length fits both, nothing is claimed
OvCode(a, b) ==
  LET cl == Common(a, b) IN
  IF cl = {} THEN 2 ELSE IF OverlapAt(a, b, MinOf(cl)) THEN 1 ELSE 0
OvIdx(i, j) ==
  LET cl == FL[i] \cap FL[j] IN
  IF cl = {} THEN 2 ELSE IF OverlapFast(U[i], U[j], MinOf(cl)) THEN 1 ELSE 0

(***************************************************************************)
(* Code-shaped overlaps_with (air/src/air/assertions/mod.rs)               *)
(***************************************************************************)
CStride(a) == IF Kind(a) = "single" THEN 0 ELSE a.stride
CIsSingle(a) == CStride(a) = 0
MultipleOf(x, t) == IF t = 0 THEN x = 0 ELSE x % t = 0
CodeOverlap(a, b) ==
  IF a.col # b.col THEN FALSE
  ELSE IF a.first = b.first THEN TRUE
  ELSE IF CStride(a) = CStride(b) THEN FALSE
  ELSE IF a.first < b.first
    THEN IF CIsSingle(a) THEN FALSE
         ELSE IF CIsSingle(b) \/ CStride(a) < CStride(b) THEN MultipleOf(b.first - a.first, CStride(a))
         ELSE FALSE
    ELSE IF CIsSingle(b) THEN FALSE
         ELSE IF CIsSingle(a) \/ CStride(b) < CStride(a) THEN MultipleOf(a.first - b.first, CStride(b))
         ELSE FALSE

(***************************************************************************)
(* Cases                                                                   *)
(***************************************************************************)
TestSeq == SetToSortSeq(TestLens, <)

InitA == case \in {[t |-> "a", i |-> i] : i \in 1..N}

\* small lists handed to BoundaryConstraints::new at trace length SetLen, width SetWidth
SetUniverse ==
  LET Lm == SetLen
      St == Pows(2, Lm)
      cs == 0..(SetWidth - 1)
  IN {Single(c, s) : c \in cs, s \in 0..(Lm - 1)}
     \cup UNION {{Periodic(c, f, t) : c \in cs, f \in 0..(t - 1)} : t \in St}
     \cup UNION {{SequenceA(c, f, t, Lm \div t) : c \in cs, f \in 0..(t - 1)} : t \in Pows(2, Lm \div 2)}
Invalids == {Single(SetWidth, 0), Single(0, SetLen), Single(SetWidth - 1, SetLen + 1),
             Periodic(0, 3, 2 * SetLen), SequenceA(0, 1, 2, SetLen \div 4), SequenceA(0, 0, 4, SetLen \div 2)}
SU  == SetUniverse \cup Invalids
SU0 == {a \in SU : a.col = 0}
Lists == {<<a>> : a \in SU} \cup {<<a, b>> : a \in SU, b \in SU}
         \cup {<<a, b, c>> : a \in SU0, b \in SU0, c \in SU0}

Accepts(s) ==
  /\ \A i \in 1..Len(s) : s[i].col < SetWidth /\ Fits(s[i], SetLen)
  /\ \A i \in 1..Len(s) : \A j \in (i + 1)..Len(s) : ~OverlapAt(s[i], s[j], SetLen)

InitS == case \in {[t |-> "s", s |-> s] : s \in Lists}

\* constructor argument classes (first = stride is left out: the doc comment says "greater than",
\* the code rejects "greater or equal"; the property does not speak about it)
CtorArgs ==
  {Periodic(0, f, t) : f \in 0..9, t \in 0..9} \cup {Periodic(1, f, t) : f \in {0, 15, 17, 40}, t \in {12, 16, 24, 32, 33}}
  \cup {SequenceA(0, f, t, m) : f \in 0..5, t \in 0..5, m \in 0..9}
  \cup {SequenceA(1, f, t, m) : f \in {0, 7, 9}, t \in {8, 12}, m \in {15, 16, 17}}
InitC == case \in {[t |-> "c", a |-> a] : a \in {x \in CtorArgs : x.first # x.stride}}

\* EDGE FAMILY (conditional): first = stride.  Documentation ("greater than") and code ("greater or equal")
\* disagree on whether the constructors accept it and the property is silent, so nothing is demanded of
\* the constructor.  But IF such an assertion can be constructed, it is the progression first + k * stride
\* like any other, and a trace length fits it only if every one of its steps is inside the trace — which
\* never happens (EdgeNeverFits): its last step is exactly the trace length.
EdgeUniverse ==
  UNION {{Periodic(c, t, t) : c \in Cols} : t \in Strides}
  \cup UNION {UNION {{SequenceA(c, t, t, m) : c \in Cols} : m \in {x \in Pows(2, LMax) : x * t <= LMax}} : t \in Strides}
EU == SetToSortSeq(EdgeUniverse, LAMBDA a, b : LexLess(Key(a), Key(b)))
FitsStrict(a, L) == Fits(a, L) /\ \A st \in Steps(a, L) : st < L
InitE == case \in {[t |-> "e", i |-> i] : i \in 1..Len(EU)}
SpecE == InitE /\ [][UNCHANGED case]_vars
EdgeNeverFits == \A L \in PowLens \cup TestLens : ~FitsStrict(EU[case.i], L)
\* for the members of the ordinary universe the strict rule is the documented rule
StrictIsDocumented == \A L \in PowLens : FitsStrict(U[case.i], L) = Fits(U[case.i], L)
RowE(a, L) == [L |-> L, fits |-> FitsStrict(a, L), steps |-> IF FitsStrict(a, L) THEN Applied(a, L) ELSE <<>>]
EmitE == PrintT(<<"REPLAY", ToJson([i |-> case.i - 1, a |-> EU[case.i], optional |-> TRUE,
                                     tbl |-> [j \in 1..Len(TestSeq) |-> RowE(EU[case.i], TestSeq[j])],
                                     ov |-> [j \in 1..Len(EU) |-> 2]])>>)

Next == UNCHANGED case
SpecA == InitA /\ [][Next]_vars
SpecS == InitS /\ [][Next]_vars
SpecC == InitC /\ [][Next]_vars

(***************************************************************************)
(* Design-level invariants (TLC)                                           *)
(***************************************************************************)
Cur == U[case.i]

\* the set-based overlap answer does not depend on which common trace length is used
LIndependent ==
  \A j \in 1..N : LET b == U[j]  cl == Common(Cur, b) IN
     \A L1 \in cl : \A L2 \in cl : OverlapAt(Cur, b, L1) = OverlapAt(Cur, b, L2)

\* overlap is symmetric and every assertion overlaps itself
Symmetric == \A j \in 1..N : OvCode(Cur, U[j]) = OvCode(U[j], Cur)
OverlapSame == \A j \in 1..N : OvIdx(case.i, j) = OvCode(Cur, U[j])
Reflexive == OvCode(Cur, Cur) \in {1, 2}

\* the progression stays inside the trace, has the reported size, and is strictly increasing
StepsWellFormed ==
  \A L \in PowLens : Fits(Cur, L) =>
     /\ Steps(Cur, L) \subseteq 0..(L - 1)
     /\ Cardinality(Steps(Cur, L)) = NumSteps(Cur, L)
     /\ Len(Applied(Cur, L)) = NumSteps(Cur, L)
     /\ {Applied(Cur, L)[j][1] : j \in 1..Len(Applied(Cur, L))} = Steps(Cur, L)

\* every member of the universe is constructible and fits at least one length
UniverseValid == Constructible(Cur) /\ \E L \in PowLens : Fits(Cur, L)

\* the transcribed case analysis agrees with the set-based definition wherever that is defined
CodeRefines ==
  \A j \in 1..N : LET c == OvCode(Cur, U[j]) IN c # 2 => (CodeOverlap(Cur, U[j]) = (c = 1))

(***************************************************************************)
(* Scenario emission                                                       *)
(***************************************************************************)
Row(a, L) == [L |-> L, fits |-> Fits(a, L), steps |-> IF Fits(a, L) THEN Applied(a, L) ELSE <<>>]

ScenarioA(i) == [i |-> i - 1, a |-> U[i],
                 tbl |-> [j \in 1..Len(TestSeq) |-> Row(U[i], TestSeq[j])],
                 ov |-> [j \in 1..N |-> OvIdx(i, j)]]
EmitA == PrintT(<<"REPLAY", ToJson(ScenarioA(case.i))>>)

EmitS == PrintT(<<"REPLAY", ToJson([len |-> SetLen, width |-> SetWidth, list |-> case.s, accept |-> Accepts(case.s)])>>)

EmitC == PrintT(<<"REPLAY", ToJson([a |-> case.a, ok |-> Constructible(case.a)])>>)
=============================================================================
