\* C23 quick: transition divisors for 11 (field, length) pairs, every e in 1..L/2+1, every trace-domain
\* point, every other element of F_97 / the coset and 3 more points of the larger fields, extension points.
SPECIFICATION Spec
CONSTANTS TCases <- TQuick
INVARIANT DocTransition ZeroSet Emit
CHECK_DEADLOCK FALSE
