------------------------------ MODULE Periodic ------------------------------
(* C23 — periodic columns.

   DENOTATION.  Trace length L, g = RootOfUnity(P, log2 L).  A periodic column with cycle c (a power of
   two, 2 <= c <= L) and values v_0 .. v_{c-1} takes the value v_{s mod c} at step s.  Its polynomial is
   THE polynomial p of degree < c with  p(h^i) = v_i  for h = RootOfUnity(P, log2 c)  (= g^(L/c)), and
   the column's value at a point x is  p(x^(L/c))  — at x = g^s that is p(h^(s mod c)) = v_{s mod c};
   as a polynomial in x its degree is (L/c)(deg p) <= (L/c)(c - 1), the number Degrees.tla uses.
   Coef(v) computes p by the inverse DFT sum  p_j = c^-1 SUM_i v_i h^(-ij);  Interpolates (TLC, every
   case) checks it against the definition  p(h^i) = v_i, and Reproduces checks the claim of the
   property on the specification itself.

   GENERATOR.  One case per (P, L, list of columns); the scenario carries the values and the expected
   column value at every trace step, at every point of the coset Gen * <w> of size 2L (w the 2L-th
   root: the LDE domain at blowup 2) and at toy-extension points — the real polynomials
   (Air::get_periodic_column_polys) are evaluated the way the verifier evaluates them:
   polynom::eval(poly, x^(L / poly.len())). *)
EXTENDS PolyP, Rand, TLC, Json, FiniteSets, SequencesExt

CONSTANTS PCases     \* set of <<P, L>>
          , NSeeds   \* seeded value vectors per single-cycle case

VARIABLE case
vars == <<case>>

Log2(n) == CHOOSE k \in 0..13 : 2 ^ k = n
Pow2s(lo, hi) == {2 ^ k : k \in lo..hi}

\* values of column k of a case: kinds "rnd" (seeded), "const", "unit", "ramp"
Values(P, L, c, kind, st) ==
  CASE kind = "rnd"   -> Mat([i \in 1..c |-> Rnd(st, i) % P], c)
    [] kind = "const" -> Mat([i \in 1..c |-> 1 + (Rnd(st, 1) % (P - 1))], c)
    [] kind = "unit"  -> Mat([i \in 1..c |-> IF i = 1 + (Rnd(st, 2) % c) THEN 1 ELSE 0], c)
    [] kind = "ramp"  -> Mat([i \in 1..c |-> i % P], c)

\* inverse DFT over the c-th roots of unity (base field)
Coef(P, v) ==
  LET c == Len(v)
      h == RootOfUnity(P, Log2(c))
      hinv == FInv(P, h)
      cinv == FInv(P, c % P)
      pw == Mat([k \in 1..c |-> FPow(P, hinv, k - 1)], c)          \* h^-(k-1)
      S(j) == FoldLeftDomain(LAMBDA acc, i : (acc + v[i] * pw[(((i - 1) * j) % c) + 1]) % P, 0, v)
  IN Mat([j \in 1..c |-> FMul(P, cinv, S(j - 1))], c)

\* Horner at a base point / at an extension point (coefficients are base elements)
EvalB(P, p, y) == FoldRight(LAMBDA cj, acc : (cj + y * acc) % P, p, 0)
EvalE(P, p, y) == FoldRight(LAMBDA cj, acc : EAdd(P, EFromBase(Len(y), cj), EMul(P, y, acc)), p, EZero(Len(y)))

\* the column's value at x (base) and at an extension point
ColAtB(P, L, p, x) == EvalB(P, p, FPow(P, x, L \div Len(p)))
ColAtE(P, L, p, x) == EvalE(P, p, EPow(P, x, L \div Len(p)))

(***************************************************************************)
(* cases                                                                   *)
(***************************************************************************)
\* a column description: [c, kind, k]
Singles(L) == {<< [c |-> c, kind |-> "rnd", k |-> k] >> : c \in Pow2s(1, Log2(L)), k \in 1..NSeeds}
              \cup {<< [c |-> c, kind |-> kd, k |-> 1] >> : c \in {2, L}, kd \in {"const", "unit", "ramp"}}
Mixed(L) == { << [c |-> 2, kind |-> "rnd", k |-> 7], [c |-> L, kind |-> "rnd", k |-> 8],
                 [c |-> 4, kind |-> "rnd", k |-> 9], [c |-> 4, kind |-> "unit", k |-> 10],
                 [c |-> L, kind |-> "ramp", k |-> 11], [c |-> L \div 2, kind |-> "rnd", k |-> 12] >> }
Init == case \in UNION {{[P |-> pc[1], L |-> pc[2], cols |-> cs] : cs \in Singles(pc[2]) \cup Mixed(pc[2])} : pc \in PCases}
Next == UNCHANGED case
Spec == Init /\ [][Next]_vars

ColValues(c, k) == Values(c.P, c.L, c.cols[k].c, c.cols[k].kind, Stream(400 + c.cols[k].c + k, c.L + c.cols[k].k))
NCols(c) == Len(c.cols)
Vals(c) == Mat([k \in 1..NCols(c) |-> ColValues(c, k)], NCols(c))
Polys(c) == LET v == Vals(c) IN Mat([k \in 1..NCols(c) |-> Coef(c.P, v[k])], NCols(c))

\* design-level: Coef is the interpolant of the definition, h = g^(L/c), and the property's claim
Interpolates ==
  LET v == Vals(case)  p == Polys(case) IN
  \A k \in 1..NCols(case) :
    LET cy == Len(v[k])  h == RootOfUnity(case.P, Log2(cy)) IN
    /\ Len(p[k]) = cy
    /\ h = FPow(case.P, RootOfUnity(case.P, Log2(case.L)), case.L \div cy)
    /\ \A i \in 1..cy : PEval(case.P, [j \in 1..cy |-> <<p[k][j]>>], <<FPow(case.P, h, i - 1)>>) = <<v[k][i]>>
Reproduces ==
  LET v == Vals(case)  p == Polys(case)  g == RootOfUnity(case.P, Log2(case.L)) IN
  \A k \in 1..NCols(case) : \A s \in 0..(case.L - 1) :
     ColAtB(case.P, case.L, p[k], FPow(case.P, g, s)) = v[k][(s % Len(v[k])) + 1]

(***************************************************************************)
(* scenario                                                                *)
(***************************************************************************)
Scenario(c) ==
  LET P == c.P  L == c.L
      v == Vals(c)  p == Polys(c)
      g == RootOfUnity(P, Log2(L))
      w == RootOfUnity(P, Log2(2 * L))
      dom == Mat([s \in 1..L |-> FPow(P, g, s - 1)], L)
      coset == Mat([i \in 1..(2 * L) |-> FMul(P, Gen(P), FPow(P, w, i - 1))], 2 * L)
      st == Stream(450, L + NCols(c))
      e2 == Mat([i \in 1..3 |-> RElem(P, 2, st, i)], 3)
      e3 == Mat([i \in 1..3 |-> RElem(P, 3, st, 10 + i)], 3)
  IN [P |-> P, L |-> L, values |-> v,
      dom |-> dom,
      \* at[k][s + 1] = value of column k at step s, by the definition of a periodic column
      at |-> [k \in 1..NCols(c) |-> [s \in 1..L |-> v[k][((s - 1) % Len(v[k])) + 1]]],
      coset |-> coset,
      oncoset |-> [k \in 1..NCols(c) |-> [i \in 1..(2 * L) |-> ColAtB(P, L, p[k], coset[i])]],
      e2 |-> e2, on2 |-> [k \in 1..NCols(c) |-> [i \in 1..3 |-> ColAtE(P, L, p[k], e2[i])]],
      e3 |-> e3, on3 |-> [k \in 1..NCols(c) |-> [i \in 1..3 |-> ColAtE(P, L, p[k], e3[i])]]]
Emit == PrintT(<<"REPLAY", ToJson(Scenario(case))>>)
=============================================================================
