------------------------------ MODULE Periodic ------------------------------
(* C23 — periodic columns.

   DENOTATION.  Trace length L, g = RootOfUnity(P, log2 L).  A periodic column with cycle c (a power of
   two, 2 <= c <= L) and values v_0 .. v_{c-1} takes the value v_{s mod c} at step s.  Its polynomial is
   THE polynomial p of degree < c with  p(h^i) = v_i  for h = RootOfUnity(P, log2 c)  (= g^(L/c)), and
   the column's value at a point x is  p(x^(L/c))  — at x = g^s that is p(h^(s mod c)) = v_{s mod c};
   as a polynomial in x its degree is (L/c)(deg p) <= (L/c)(c - 1), the number Degrees.tla uses.
   Coef(v) computes p by the inverse DFT sum  p_j = c^-1 SUM_i v_i h^(-ij);  Interpolates (TLC, every
   case) checks it against the definition  p(h^i) = v_i, and Reproduces checks the claim of the
   property on the specification itself.

   This module holds the definitions; GenPeriodic.tla is the generator (TransEval.tla uses the same
   definitions for the prover's periodic value table): one case per (P, L, list of columns); the scenario carries the values and the expected
   column value at every trace step, at every point of the coset Gen * <w> of size 2L (w the 2L-th
   root: the LDE domain at blowup 2) and at toy-extension points — the real polynomials
   (Air::get_periodic_column_polys) are evaluated the way the verifier evaluates them:
   polynom::eval(poly, x^(L / poly.len())). *)
EXTENDS PolyP, Rand, TLC, Json, FiniteSets, SequencesExt

Log2(n) == CHOOSE k \in 0..13 : 2 ^ k = n
Pow2s(lo, hi) == {2 ^ k : k \in lo..hi}

\* values of column k of a case: kinds "rnd" (seeded), "const", "unit", "ramp"
Values(P, L, c, kind, st) ==
  CASE kind = "rnd"   -> Mat([i \in 1..c |-> Rnd(st, i) % P], c)
    [] kind = "const" -> Mat([i \in 1..c |-> 1 + (Rnd(st, 1) % (P - 1))], c)
    [] kind = "unit"  -> Mat([i \in 1..c |-> IF i = 1 + (Rnd(st, 2) % c) THEN 1 ELSE 0], c)
    [] kind = "ramp"  -> Mat([i \in 1..c |-> i % P], c)

\* inverse DFT over the c-th roots of unity (base field)
Coef(P, v) ==
  LET c == Len(v)
      h == RootOfUnity(P, Log2(c))
      hinv == FInv(P, h)
      cinv == FInv(P, c % P)
      pw == Mat([k \in 1..c |-> FPow(P, hinv, k - 1)], c)          \* h^-(k-1)
      S(j) == FoldLeftDomain(LAMBDA acc, i : (acc + v[i] * pw[(((i - 1) * j) % c) + 1]) % P, 0, v)
  IN Mat([j \in 1..c |-> FMul(P, cinv, S(j - 1))], c)

\* Horner at a base point / at an extension point (coefficients are base elements)
EvalB(P, p, y) == FoldRight(LAMBDA cj, acc : (cj + y * acc) % P, p, 0)
EvalE(P, p, y) == FoldRight(LAMBDA cj, acc : EAdd(P, EFromBase(Len(y), cj), EMul(P, y, acc)), p, EZero(Len(y)))

\* the column's value at x (base) and at an extension point
ColAtB(P, L, p, x) == EvalB(P, p, FPow(P, x, L \div Len(p)))
ColAtE(P, L, p, x) == EvalE(P, p, EPow(P, x, L \div Len(p)))
=============================================================================
