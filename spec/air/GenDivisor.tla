----------------------------- MODULE GenDivisor -----------------------------
(* C23 — generator and design-level checks for the transition divisor (definitions: Divisor.tla). *)
EXTENDS Divisor

CONSTANTS TCases     \* set of <<P, L>> pairs

VARIABLES case, phase
vars == <<case, phase>>

(***************************************************************************)
(* points                                                                  *)
(***************************************************************************)
\* [x |-> extension tuple, s |-> trace step or -1] ; base points are 1-tuples
BasePts(P, L) ==
  LET dom == TraceDomain(P, L)
      onDomain == Mat([i \in 1..L |-> [x |-> <<dom[i]>>, s |-> i - 1]], L)
      \* every other element of the field when it is small, else the coset Gen * <g> and a few more
      others == IF P = 97
                  THEN LET rest == {v \in 0..(P - 1) : \A i \in 1..L : dom[i] # v}
                           RECURSIVE SeqOf(_)
                           SeqOf(S) == IF S = {} THEN <<>>
                                       ELSE LET m == CHOOSE m \in S : \A y \in S : m <= y
                                            IN <<[x |-> <<m>>, s |-> -1]>> \o SeqOf(S \ {m})
                       IN SeqOf(rest)
                  ELSE LET StepOf(v) == IF \E i \in 1..L : dom[i] = v THEN (CHOOSE i \in 1..L : dom[i] = v) - 1 ELSE -1
                       IN Mat([i \in 1..L |-> [x |-> <<FMul(P, Gen(P), dom[i])>>, s |-> StepOf(FMul(P, Gen(P), dom[i]))]], L)
                          \o << [x |-> <<0>>, s |-> -1], [x |-> <<2>>, s |-> StepOf(2)], [x |-> <<3>>, s |-> StepOf(3)] >>
  IN onDomain \o others
ExtPts(P, L, d) ==
  LET st == Stream(300 + d, L) IN
  Mat([i \in 1..4 |-> [x |-> RElem(P, d, st, i), s |-> -1]], 4)
  \o << [x |-> EFromBase(d, G(P, L)), s |-> 1] >>     \* a trace-domain point seen as an extension element

(***************************************************************************)
(* cases                                                                   *)
(***************************************************************************)
Init == phase = 0 /\ case \in {[P |-> c[1], L |-> c[2]] : c \in TCases}
\* TLC computes initial states in one thread: every case takes one step, and the invariants (and the
\* scenario emission) are evaluated on the state after it, by the workers
Next == phase = 0 /\ phase' = 1 /\ UNCHANGED case
Spec == Init /\ [][Next]_vars

Es(L) == 1..(L \div 2 + 1)

\* table for one list of points: for every point the prefix products
PTable(P, L, pts) == LET dom == TraceDomain(P, L) IN Mat([i \in 1..Len(pts) |-> Prefixes(P, dom, pts[i].x)], Len(pts))
STable(P, L, pts) == LET dom == TraceDomain(P, L) IN Mat([i \in 1..Len(pts) |-> SufFrom(P, dom, pts[i].x, 1)], Len(pts))

\* the documented closed form agrees with the product over the non-exempt steps
DocTransitionOn(P, L, pts) ==
  LET pre == PTable(P, L, pts)
      suf == STable(P, L, pts)
  IN \A i \in 1..Len(pts) : \A e \in Es(L) :
       LET d == Len(pts[i].x)
           lhs == ESub(P, EPow(P, pts[i].x, L), EOne(d))
       IN lhs = EMul(P, pre[i][L - e + 1], suf[i][L - e + 1])
DocTransition == phase = 1 =>
  /\ DocTransitionOn(case.P, case.L, BasePts(case.P, case.L))
                 /\ DocTransitionOn(case.P, case.L, ExtPts(case.P, case.L, 2))
                 /\ DocTransitionOn(case.P, case.L, ExtPts(case.P, case.L, 3))
\* the zero set over the trace domain is exactly the non-exempt steps
ZeroSet == phase = 1 =>
  LET pts == BasePts(case.P, case.L)
      pre == PTable(case.P, case.L, pts)
  IN \A i \in 1..Len(pts) : \A e \in Es(case.L) :
       (pre[i][case.L - e + 1] = <<0>>) <=> (pts[i].s >= 0 /\ pts[i].s < case.L - e)

JE(e) == IF Len(e) = 1 THEN e[1] ELSE e
PtsJson(P, L, pts) ==
  LET pre == PTable(P, L, pts) IN
  [pts |-> [i \in 1..Len(pts) |-> [x |-> JE(pts[i].x), s |-> pts[i].s]],
   \* vals[e][i] = Z_e(pts[i]); pole[e][i] = pts[i] is an exempted trace-domain point
   vals |-> [e \in 1..(L \div 2 + 1) |-> [i \in 1..Len(pts) |-> JE(pre[i][L - e + 1])]]]
Scenario(c) ==
  [P |-> c.P, L |-> c.L,
   d1 |-> PtsJson(c.P, c.L, BasePts(c.P, c.L)),
   d2 |-> PtsJson(c.P, c.L, ExtPts(c.P, c.L, 2)),
   d3 |-> PtsJson(c.P, c.L, ExtPts(c.P, c.L, 3)),
   deg |-> [e \in 1..(c.L \div 2 + 1) |-> c.L - e]]
Emit == phase = 1 => PrintT(<<"REPLAY", ToJson(Scenario(case))>>)
=============================================================================
