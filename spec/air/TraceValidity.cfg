SPECIFICATION Spec
CONSTANTS P = 257  LogLen = 3  Deltas = {1}
  ShapeSets <- ShapesQuick  Exemptions = {1, 3, 4}  AssertSets <- AssertsQuick  AuxChoices <- AuxQuick
INVARIANT Emit ClassificationSound HonestValid
CHECK_DEADLOCK FALSE
