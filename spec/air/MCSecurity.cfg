\* quick: blowup in {2,8,128}, all field sizes and collision-resistance levels, full queries x grinding x extension.
SPECIFICATION Spec
CONSTANTS MaxQ = 255  MaxG = 32  MaxE = 3
  Blowups <- SomeBlowups  FieldBits <- AllFieldBits  CRs <- AllCRs
INVARIANT Bounds NoUnderflow
PROPERTY NonDecreasing
CHECK_DEADLOCK FALSE
