SPECIFICATION Spec
CONSTANTS P = 257  LogLen = 4  Deltas = {1}
  ShapeSets <- ShapesL16  Exemptions = {1, 7}  AssertSets <- AssertsL16  AuxChoices <- AuxQuick
INVARIANT Emit ClassificationSound HonestValid
CHECK_DEADLOCK FALSE
