\* design level: the set-based overlap answer is independent of the common trace length, symmetric,
\* reflexive, and the transcribed case analysis of overlaps_with agrees with it on every pair.
SPECIFICATION SpecA
CONSTANTS LMax = 64  SetLen = 8  SetWidth = 2
  Cols <- ColsTwo  TestLens <- TestLensAll
INVARIANT LIndependent Symmetric Reflexive OverlapSame CodeRefines
CHECK_DEADLOCK FALSE
