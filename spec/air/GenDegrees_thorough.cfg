\* C23 thorough: L up to 128, base up to 10, more two-constraint contexts.
SPECIFICATION Spec
CONSTANTS Lens = {8, 16, 32, 64, 128}  MaxBase = 10  PairBases = {1, 2, 3, 4, 5, 8, 9}  Fixed = TRUE
INVARIANT DocDegree BlowupPow2 DefaultAccepted BlowupSuffices ColsHold ColsMinimal ColsFitDomain ColsAsRequired Emit
CHECK_DEADLOCK FALSE
