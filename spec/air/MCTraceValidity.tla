-------------------------- MODULE MCTraceValidity --------------------------
EXTENDS TraceValidity
S1(col, step) == [t |-> "single", col |-> col, step |-> step, first |-> 0, stride |-> 0, n |-> 0]
SQ(col, first, stride, n) == [t |-> "seq", col |-> col, step |-> 0, first |-> first, stride |-> stride, n |-> n]
PA(col, first, stride) == [t |-> "periodic", col |-> col, step |-> 0, first |-> first, stride |-> stride, n |-> 0]

ShapesQuick == { <<"sum">>, <<"pcol", "sum">>, <<"mul2", "id">>, <<"sum", "cube">>, <<"per", "mul2">>, <<"pcol", "mulper">>,
                 <<"mul2per2", "sum">>, <<"id", "sum", "mul2">> }
ShapesMore  == ShapesQuick \cup { <<"d5">>, <<"cube", "per">>, <<"pcol", "sum", "mulper">>, <<"mul2", "mul2">> }
AssertsQuick == { <<S1(0, 0)>>, <<S1(0, 0), S1(0, 7)>>, <<SQ(0, 1, 2, 4)>>, <<S1(0, 0), SQ(0, 3, 4, 2)>>,
                  <<PA(0, 1, 4), S1(1, 0)>>, <<S1(1, 6), S1(0, 0)>>,
                  \* assertions whose last instances fall into the exempt rows (only the assertion constrains them)
                  <<PA(0, 3, 4), S1(1, 7)>>, <<SQ(0, 1, 2, 4), S1(1, 0)>> }
\* (the third choice has more auxiliary than main columns on the one-column shapes)
AuxQuick == { <<>>, <<[width |-> 1, rands |-> 1, src |-> <<0>>]>>, <<[width |-> 2, rands |-> 1, src |-> <<0, 0>>]>> }
AuxMore  == AuxQuick \cup { <<[width |-> 2, rands |-> 2, src |-> <<1, 0>>]>> }
=============================================================================
