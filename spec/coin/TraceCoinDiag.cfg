SPECIFICATION Spec
INVARIANT Progress Explain
POSTCONDITION Accepted
CHECK_DEADLOCK FALSE
