\* Design-level check of the symbolic coin machine: exhaustive within the bounds.
SPECIFICATION Spec
CONSTANTS MaxOps = 3  Tries = 3
  MFields <- MFieldsAll  SeedSet <- SeedsOne  DigestAtoms = {1, 2}  NonceSet <- NoncesTwo
  Counts = {0, 1, 4}  Sizes <- SizesQuick  Degs = {1, 2}
INVARIANT Deterministic Sensitive Fresh Promised CounterOK
CHECK_DEADLOCK FALSE
