----------------------------- MODULE TraceCoin -----------------------------
(* C20 — trace validation of the real DefaultRandomCoin against the machine of RandomCoin.tla
   (mechanisms B and C of DESIGN.md).

   The trace (ndjson file named by the environment variable TRACE) is written by
   harness/hashcoin/src/coin.rs: one event per public coin call, logged at its return, carrying the
   arguments, the result `r` and `hf` — the hasher calls the coin made during the call, recorded by
   the LoggedHasher wrapper as facts
        [fn |-> "he" | "m" | "mi", a, b |-> input digest ids, n |-> the u64 as 8 LE bytes,
         el |-> element encodings, o |-> output digest id, ob |-> the 32 bytes of the output]
   Digests are interned by the recorder: equal ids <=> equal digests.  The machine's hash operators
   are look-ups in `hf`, so the seed is a digest id and the relations  seed' = Merge(seed, d),
   value = MergeInt(seed, counter)  are checked structurally; only the decoding of output bytes
   (element validity per coordinate, masks, trailing zeros) is computed, by the specification.

   Every history is recorded three times:
     run "A"   the history;
     run "A2"  the same calls again  — must be event-for-event equal to A (determinism);
     run "B"   the same calls with the digest of ONE reseed call (number `div`) replaced —
               equal to A before that call, and afterwards no result may be read from a digest that
               a result of A was read from; when the history declares its hasher a real hash function
               (`oracle` = 1 in the end event: outputs behave like random bytes) drawn elements of
               fields >= 62 bits must differ too.  Nothing else depends on which hasher made the facts.
   Events: begin, new, reseed, draw, ints, lz, end.  The trace is accepted iff every event is
   explained; otherwise the postcondition prints the index of the first unexplained event. *)
EXTENDS Integers, Sequences, FiniteSets, TLC, Json, IOUtils, Bytes

Rec == ndJsonDeserialize(IOEnv.TRACE)
NoD == -1

(***************************************************************************)
(* Hash operators: look-ups in the calls logged during the current event   *)
(***************************************************************************)
\* ctx = [hf |-> logged calls of the event, c |-> the counter when the call began]
RECURSIVE Scan(_, _, _, _, _, _)
Scan(hf, fn, a, b, n, i) ==          \* index of the first matching call at or after i, 0 if none
  IF i > Len(hf) THEN 0
  ELSE IF hf[i].fn = fn /\ hf[i].a = a /\ hf[i].b = b /\ hf[i].n = n THEN i
  ELSE Scan(hf, fn, a, b, n, i + 1)

RECURSIVE ScanHE(_, _, _)
ScanHE(hf, seed, i) ==
  IF i > Len(hf) THEN 0
  ELSE IF hf[i].fn = "he" /\ hf[i].el = seed THEN i
  ELSE ScanHE(hf, seed, i + 1)

TrHE(ctx, seed) == LET i == ScanHE(ctx.hf, seed, 1) IN IF i = 0 THEN NoD ELSE ctx.hf[i].o
TrM(ctx, s, d)  == LET i == Scan(ctx.hf, "m", s, d, <<>>, 1) IN IF i = 0 THEN NoD ELSE ctx.hf[i].o
TrMI(ctx, s, n) ==
  LET hf == ctx.hf
      Is(i) == i \in 1..Len(hf) /\ hf[i].fn = "mi" /\ hf[i].a = s /\ hf[i].n = n
      k  == IF FitsInt(n) THEN FromLE(n) ELSE -5
      i1 == k - ctx.c        \* where a draw makes this call (counter minus the counter at entry)
      i2 == k + 1            \* where an integer draw makes it (after merging the nonce)
      i  == IF Is(i1) THEN i1 ELSE IF Is(i2) THEN i2 ELSE Scan(hf, "mi", s, -1, n, 1)
  IN IF i = 0 THEN [d |-> NoD, b |-> <<>>] ELSE [d |-> hf[i].o, b |-> hf[i].ob]

C == INSTANCE RandomCoin WITH HE <- TrHE, M <- TrM, MI <- TrMI, NoDigest <- NoD, MaxTries <- 1000

(***************************************************************************)
(* Validation state                                                        *)
(***************************************************************************)
VARIABLES l,      \* next event
          f,      \* field of the current run
          st,     \* coin state of the current run: [s |-> seed digest id, c |-> counter]
          obs,    \* observations of the current run, one per call
          obsA    \* observations of run A of the current history
vars == <<l, f, st, obs, obsA>>

OpOf(e) == [op |-> e.e, deg |-> e.deg, n |-> e.n, size |-> e.size, nonce |-> e.nonce, d |-> e.d]
\* what is compared between runs: the call, its result, the digests the result was read from
Ob(e, r) == [op |-> OpOf(e), seed |-> e.seed, r |-> e.r, src |-> r.src]

Range(s) == {s[i] : i \in 1..Len(s)}
SeedOK(e) == \A i \in 1..Len(e.seed) :
                /\ Len(e.seed[i]) = C!Width(f)
                /\ C!ValidElem(f, 1, e.seed[i])

\* a call on the coin: the machine explains the result, and the result is what the property promises
Call(e) ==
  LET op == OpOf(e)
      r  == C!Step([hf |-> e.hf, c |-> st.c], f, st, op)
  IN /\ e.e = "ints" => C!IntsPre(op)
     /\ r.ok
     /\ e.r = r.res
     /\ C!WellFormedResult(f, op, e.r)
     /\ st' = r.st
     /\ obs' = Append(obs, Ob(e, r))
     /\ UNCHANGED <<f, obsA>>

NewCoin(e) ==
  LET r == C!New([hf |-> e.hf, c |-> 0], e.seed) IN
  /\ obs = <<>>
  /\ SeedOK(e)
  /\ r.ok
  /\ e.r = r.res
  /\ st' = r.st
  /\ obs' = <<Ob(e, r)>>
  /\ UNCHANGED <<f, obsA>>

\* run B against run A: same calls except the digest of reseed call number div
SameCall(x, y) == x.op = y.op /\ x.seed = y.seed
Diverges(oa, ob, div, oracle) ==
  /\ Len(oa) = Len(ob)
  /\ div \in 2..Len(oa)
  /\ \A k \in 1..(div - 1) : oa[k] = ob[k]
  /\ oa[div].op.op = "reseed" /\ ob[div].op.op = "reseed" /\ oa[div].op.d # ob[div].op.d
  /\ \A k \in (div + 1)..Len(oa) :
        /\ SameCall(oa[k], ob[k])
        /\ Range(oa[k].src) \cap Range(ob[k].src) = {}
        /\ (oracle = 1 /\ oa[k].op.op = "draw" /\ C!Width(f) >= 8 /\ oa[k].r.t = "ok" /\ ob[k].r.t = "ok")
              => oa[k].r.v # ob[k].r.v

Begin(e) == /\ f' = e.f
            /\ st' = C!St(NoD, 0)
            /\ obs' = <<>>
            /\ obsA' = IF e.run = "A" THEN <<>> ELSE obsA

End(e) == /\ obs # <<>>
          /\ CASE e.run = "A"  -> obsA' = obs
               [] e.run = "A2" -> obs = obsA /\ UNCHANGED obsA
               [] e.run = "B"  -> Diverges(obsA, obs, e.div, e.oracle) /\ UNCHANGED obsA
          /\ UNCHANGED <<f, st, obs>>

Explains(e) ==
  CASE e.e = "begin" -> Begin(e)
    [] e.e = "new"   -> NewCoin(e)
    [] e.e \in {"reseed", "draw", "ints", "lz"} -> Call(e)
    [] e.e = "end"   -> End(e)
    [] OTHER -> FALSE

Init == l = 1 /\ f = "" /\ st = C!St(NoD, 0) /\ obs = <<>> /\ obsA = <<>>
Next == /\ l <= Len(Rec)
        /\ Explains(Rec[l])
        /\ l' = l + 1
Spec == Init /\ [][Next]_vars

(* Diagnostics (TraceCoinDiag.cfg, run by the check on the history of a rejected event only): what the
   machine gives for the next event — `found` is FALSE when a hash the machine needs was not among the
   calls the coin made. *)
Expect(e) ==
  IF e.e = "new"
    THEN LET r == C!New([hf |-> e.hf, c |-> 0], e.seed) IN [found |-> r.ok, res |-> r.res, counter |-> r.st.c]
  ELSE IF e.e \in {"reseed", "draw", "ints", "lz"}
    THEN LET r == C!Step([hf |-> e.hf, c |-> st.c], f, st, OpOf(e)) IN
         [found |-> r.ok, res |-> r.res, counter |-> r.st.c]
  ELSE [found |-> TRUE, res |-> [t |-> "-", v |-> <<>>], counter |-> st.c]
Explain == l <= Len(Rec) => PrintT(<<"EXPECT", ToJson([l |-> l, x |-> Expect(Rec[l])])>>)

Progress == TLCSet(7, l)
Accepted == IF TLCGet(7) = Len(Rec) + 1 THEN TRUE
            ELSE Print(<<"REJECTED_AT", TLCGet(7)>>, FALSE)
=============================================================================
