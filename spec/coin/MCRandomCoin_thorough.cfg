\* Design-level check of the symbolic coin machine, one call deeper than the quick configuration.
SPECIFICATION Spec
CONSTANTS MaxOps = 4  Tries = 3
  MFields <- MFieldsAll  SeedSet <- SeedsTwo  DigestAtoms = {1, 2}  NonceSet <- NoncesTwo
  Counts = {0, 1, 4}  Sizes <- SizesThorough  Degs = {1, 2, 3}
INVARIANT Deterministic Sensitive Fresh Promised CounterOK
CHECK_DEADLOCK FALSE
