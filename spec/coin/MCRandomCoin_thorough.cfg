SPECIFICATION Spec
CONSTANTS MaxOps = 4  Tries = 3
  MFields <- MFieldsAll  SeedSet <- SeedsTwo  DigestAtoms = {1, 2, 3}  NonceSet <- NoncesThree
  Counts = {0, 1, 3, 4}  Sizes = {2, 8, 256}  Degs = {1, 2, 3}
INVARIANT Deterministic Sensitive Fresh Promised CounterOK
CHECK_DEADLOCK FALSE
