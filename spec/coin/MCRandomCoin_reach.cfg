\* Vacuity guard: TLC must find a draw that is accepted after a rejection and a draw that fails.
SPECIFICATION Spec
CONSTANTS MaxOps = 3  Tries = 3
  MFields <- MFieldsAll  SeedSet <- SeedsTwo  DigestAtoms = {1, 2}  NonceSet <- NoncesThree
  Counts = {0, 1, 3, 4}  Sizes = {2, 8}  Degs = {1, 2}
INVARIANT NoRetryThenAccept
CHECK_DEADLOCK FALSE
