---------------------------- MODULE MCRandomCoin ----------------------------
(* Design-level model checking of the coin machine of RandomCoin.tla over SYMBOLIC hashes.
   A digest is a term — <<"he", seed>>, <<"m", s, d>>, <<"mi", s, n>>, or an atom <<"d", k>> — so the
   hash functions are collision free by construction; the 32 bytes of a merge-with-int digest come
   from a fixed pseudo-random function of the term (so that decoding sometimes rejects and the
   retry loop, the error path and the masks are exercised; model fields are one byte wide:
   m97 rejects ~62 %, m251 ~2 %).

   Two coins A and B run in lock step on the same call history, except that B may replace the digest
   of ONE reseed call by a different one.  TLC checks, for every history up to MaxOps calls:
     Deterministic  while the histories are equal, states and results are equal
     Sensitive      once they differ, the seeds differ and no digest a result of A was read from is
                    a digest a result of B was read from (at any position)
     Fresh          a coin never reads two results from the same digest (draws and integer draws)
     Promised       results are well formed: valid elements, exactly n integers, all < domain size,
                    0..64 zero bits
     CounterOK      the counter is reset by reseeding / integer draws and bounded by the work done *)
EXTENDS Integers, Sequences, FiniteSets, TLC, Bytes

CONSTANTS MaxOps, Tries, MFields, SeedSet, DigestAtoms, NonceSet, Counts, Sizes, Degs

NoD == <<"none">>

(* ---- the symbolic hash ---- *)
Q == 65521
ByteSum(b) == LET RECURSIVE S(_)
                  S(i) == IF i > Len(b) THEN 0 ELSE (b[i] * (2 * i + 1) + S(i + 1)) % Q
              IN S(1)
RECURSIVE Wt(_)
Wt(t) == CASE t[1] = "d"  -> (t[2] * 101 + 5) % Q
           [] t[1] = "he" -> (ByteSum(t[2]) * 7 + Len(t[2]) + 13) % Q
           [] t[1] = "m"  -> (Wt(t[2]) * 31 + Wt(t[3]) * 17 + 3) % Q
           [] t[1] = "mi" -> (Wt(t[2]) * 131 + ByteSum(t[3]) * 29 + 11) % Q
PBytes(t) == LET w == Wt(t) IN [i \in 1..32 |-> ((w + 7 * i) * ((w % 251) + 2 * i + 1)) % 256]

SymHE(ctx, seed) == <<"he", seed>>
SymM(ctx, s, d)  == <<"m", s, d>>
SymMI(ctx, s, n) == [d |-> <<"mi", s, n>>, b |-> PBytes(<<"mi", s, n>>)]

C == INSTANCE RandomCoin WITH HE <- SymHE, M <- SymM, MI <- SymMI, NoDigest <- NoD, MaxTries <- Tries

VARIABLES f, a, b, div, nops, last, used, fresh
vars == <<f, a, b, div, nops, last, used, fresh>>

Op(o, deg, n, size, nonce, d) == [op |-> o, deg |-> deg, n |-> n, size |-> size, nonce |-> nonce, d |-> d]
Z8 == <<0, 0, 0, 0, 0, 0, 0, 0>>
Ops == {Op("reseed", 0, 0, Z8, Z8, <<"d", k>>) : k \in DigestAtoms}
       \cup {Op("draw", g, 0, Z8, Z8, NoD) : g \in Degs}
       \cup {Op("ints", 0, n, sz, x, NoD) : n \in Counts, sz \in Sizes, x \in NonceSet}
       \cup {Op("lz", 0, 0, Z8, x, NoD) : x \in NonceSet}

NoRes == [st |-> C!St(NoD, 0), res |-> C!Ok(<<>>), src |-> <<>>, ok |-> TRUE]
Init == /\ f \in MFields
        /\ \E seed \in SeedSet : a = C!New(<<>>, seed).st /\ b = C!New(<<>>, seed).st
        /\ div = FALSE /\ nops = 0
        /\ last = [op |-> Op("none", 0, 0, Z8, Z8, NoD), ra |-> NoRes, rb |-> NoRes]
        /\ used = {} /\ fresh = TRUE

Range(s) == {s[i] : i \in 1..Len(s)}
Do(op, opB) ==
  LET ra == C!Step(<<>>, f, a, op)
      rb == C!Step(<<>>, f, b, opB)
      outs == IF op.op \in {"draw", "ints"} THEN ra.src ELSE <<>>
  IN /\ a' = ra.st /\ b' = rb.st
     /\ last' = [op |-> op, ra |-> ra, rb |-> rb]
     /\ fresh' = (Cardinality(Range(outs)) = Len(outs) /\ Range(outs) \cap used = {})
     /\ used' = used \cup Range(outs)
     /\ nops' = nops + 1
     /\ UNCHANGED f

Next == /\ nops < MaxOps
        /\ \E op \in Ops :
             /\ op.op = "ints" => C!IntsPre(op)
             /\ \/ Do(op, op) /\ UNCHANGED div
                \/ /\ op.op = "reseed" /\ ~div
                   /\ \E k \in DigestAtoms : <<"d", k>> # op.d /\ Do(op, [op EXCEPT !.d = <<"d", k>>])
                   /\ div' = TRUE
Spec == Init /\ [][Next]_vars

Deterministic == ~div => (a = b /\ last.ra = last.rb)
Sensitive == div => /\ a.s # b.s
                    /\ Range(last.ra.src) \cap Range(last.rb.src) = {}
Fresh == fresh
Promised == /\ last.ra.ok /\ last.rb.ok
            /\ last.op.op # "none" => /\ C!WellFormedResult(f, last.op, last.ra.res)
                                      /\ C!WellFormedResult(f, last.op, last.rb.res)
            \* exactly n integers (n <= Tries), an error beyond
            /\ last.op.op = "ints" => (last.ra.res.t = "ok") = (last.op.n <= Tries)
CounterOK == /\ last.op.op = "reseed" => a.c = 0
             /\ last.op.op = "ints" => a.c = Min2(last.op.n, Tries)
             /\ last.op.op = "draw" => (a.c >= 1 /\ (last.ra.res.t = "err") = (Len(last.ra.src) = 0))
             /\ a.c <= nops * Tries
\* Vacuity guards, evaluated by TLC before the search: over the model fields a draw that is accepted
\* after a rejected candidate, a draw that fails after Tries candidates, and a first-candidate accept exist.
Starts(seed) == {C!New(<<>>, seed).st}
                  \cup {C!Reseed(<<>>, C!New(<<>>, seed).st, <<"d", k>>).st : k \in DigestAtoms}
                  \cup {C!Reseed(<<>>, C!Reseed(<<>>, C!New(<<>>, seed).st, <<"d", k>>).st, <<"d", j>>).st :
                           k \in DigestAtoms, j \in DigestAtoms}
Draws(fld) == {C!Draw(<<>>, fld, st0, deg) : st0 \in UNION {Starts(seed) : seed \in SeedSet}, deg \in Degs}
ASSUME RetryThenAcceptReachable ==
  \E fld \in MFields : \E r \in Draws(fld) : r.res.t = "ok" /\ r.st.c >= 2
ASSUME DrawErrorReachable ==
  \E fld \in MFields : \E r \in Draws(fld) : r.res.t = "err" /\ r.st.c = Tries
ASSUME FirstAcceptReachable ==
  \E fld \in MFields : \E r \in Draws(fld) : r.res.t = "ok" /\ r.st.c = 1

MFieldsAll == {"m97", "m251"}
SeedsTwo == {<<>>, <<1, 0, 0, 0>>}
\* domain sizes as 8-byte little-endian arrays: 2, 8, 2^35 (the mask cuts inside the fifth byte), 2^63
SizesQuick    == {<<2, 0, 0, 0, 0, 0, 0, 0>>, <<0, 0, 0, 0, 8, 0, 0, 0>>}
SizesThorough == {<<2, 0, 0, 0, 0, 0, 0, 0>>, <<8, 0, 0, 0, 0, 0, 0, 0>>, <<0, 0, 0, 0, 8, 0, 0, 0>>,
                  <<0, 0, 0, 0, 0, 0, 0, 128>>}
SeedsOne == {<<1, 0, 0, 0>>}
NoncesTwo == {Z8, <<255, 255, 255, 255, 255, 255, 255, 255>>}
NoncesThree == {Z8, <<1, 0, 0, 0, 0, 0, 0, 0>>, <<255, 255, 255, 255, 255, 255, 255, 255>>}
=============================================================================
