----------------------------- MODULE RandomCoin -----------------------------
(* C20 — the public coin (crypto/src/random/default.rs, DefaultRandomCoin) as a machine over HASH
   TERMS.  The state is a seed digest `s` and a counter `c`:

     New(seed elements)     s = HashElems(seed),               c = 0
     Reseed(d)              s = Merge(s, d),                   c = 0
     Draw<E>                repeat c += 1; v = MergeInt(s, c)
                            until the first ELEMENT_BYTES(E) bytes of v decode to a valid element
                            (Decode: every base-field coordinate, W bytes little-endian, is < p);
                            at most MaxTries (1000) repetitions, then an error
     DrawIntegers(n, size, nonce)
                            s = MergeInt(s, nonce), c = 0; then n times: c += 1,
                            value = (first 8 bytes of MergeInt(s, c) as LE u64) AND (size - 1);
                            size (a power of two up to 2^63) and the values are 8-byte little-endian
                            arrays, the mask is applied byte by byte;
                            duplicates are kept; an error when n > MaxTries
     LeadingZeros(nonce)    trailing zero bits of the first 8 bytes (LE u64) of MergeInt(s, nonce);
                            the state does not change

   The hash functions are CONSTANT OPERATORS of this module, so the one machine definition is used
     * by MCRandomCoin  with free constructors (terms) and a pseudo-random byte oracle — TLC checks
       determinism, sensitivity to a changed reseed digest and the count/range of integer draws;
     * by TraceCoin     with look-ups in the hash calls the real coin made through a logging hasher
       (mechanism C, impl -> spec) — TLC validates every recorded coin call against this machine.
   `ctx` is an opaque context handed through to the hash operators (the logged calls of the event
   being validated; unused by the symbolic instance). A hash operator returns NoDigest when the
   context has no such call. *)
EXTENDS Integers, Sequences, TLC, Bytes, BigNat

CONSTANTS HE(_, _),      \* (ctx, seed elements)          -> digest
          M(_, _, _),    \* (ctx, seed digest, digest)    -> digest
          MI(_, _, _),   \* (ctx, seed digest, 8 LE bytes)-> [d |-> digest, b |-> its 32 bytes (Digest::as_bytes)]
          NoDigest,
          MaxTries       \* 1000 in the code

(***************************************************************************)
(* Fields: modulus and element width in bytes                              *)
(***************************************************************************)
Modulus(f) ==
  CASE f = "f64"     -> <<1, 0, 0, 0, 255, 255, 255, 255>>                       \* 2^64 - 2^32 + 1
    [] f = "f62"     -> <<1, 0, 0, 0, 128, 200, 255, 63>>                        \* 2^62 - 111 * 2^39 + 1
    [] f = "f128"    -> <<1, 0, 0, 0, 0, 211, 255, 255, 255, 255, 255, 255, 255, 255, 255, 255>>
    [] f = "t97"     -> <<97>>
    [] f = "t257"    -> <<1, 1>>
    [] f = "t257r"   -> <<1, 1>>
    [] f = "t40961"  -> <<1, 160>>
    [] f = "t40961r" -> <<1, 160>>
    [] f = "m97"     -> <<97>>         \* model field of the symbolic instance: one byte wide
    [] f = "m251"    -> <<251>>
Width(f) == CASE f \in {"f64", "f62"} -> 8 [] f = "f128" -> 16 [] f \in {"m97", "m251"} -> 1 [] OTHER -> 4

(***************************************************************************)
(* Decoding                                                                *)
(***************************************************************************)
\* bytes (Width(f) * deg of them) decode to an element iff every coordinate is below the modulus
Coord(f, b, k) == SubSeq(b, (k - 1) * Width(f) + 1, k * Width(f))
ValidElem(f, deg, b) ==
  /\ Len(b) = Width(f) * deg
  /\ \A k \in 1..deg : BLess(Coord(f, b, k), Modulus(f))

(* What E::from_random_bytes makes of the first ELEMENT_BYTES(E) bytes of a digest: [ok, v] with v the
   canonical encoding of the element.
   * winterfell's fields and every extension type: the bytes must BE a canonical encoding
     (TryFrom<&[u8]>: every coordinate below the modulus), and then they are the element;
   * base elements of the harness' toy fields (harness/common/src/toy.rs, Randomizable): only the low
     16 bits x of the 4 bytes are used — rejection sampling (x < P) when P >= 2^15, reduction x mod P
     for the smaller moduli (every candidate is accepted). *)
IsToy(f) == f \in {"t97", "t257", "t257r", "t40961", "t40961r"}
Decode(f, deg, b) ==
  IF IsToy(f) /\ deg = 1
    THEN LET x == b[1] + 256 * b[2]
             P == FromLE(Modulus(f))
         IN IF P >= 32768 THEN [ok |-> x < P, v |-> LE(x, 4)]
                          ELSE [ok |-> TRUE, v |-> LE(x % P, 4)]
    ELSE [ok |-> ValidElem(f, deg, b), v |-> b]

(* Domain sizes and drawn integers are usize values, written as 8 little-endian bytes (TLC integers
   are 32-bit).  A power of two has exactly one bit set; BitIndex is its position k (size = 2^k), -1 when
   size is not a power of two.  Mask is (LE u64 of the first 8 bytes of b) AND (size - 1): bytes wholly
   below bit k are kept, the byte containing bit k keeps its low k mod 8 bits, the rest are zero. *)
RECURSIVE BitIndexFrom(_, _)
BitIndexFrom(size, i) ==
  IF i > Len(size) THEN -1
  ELSE IF size[i] = 0 THEN BitIndexFrom(size, i + 1)
  ELSE IF size[i] \in {1, 2, 4, 8, 16, 32, 64, 128} /\ \A j \in (i + 1)..Len(size) : size[j] = 0
         THEN 8 * (i - 1) + TZ8(size[i])
         ELSE -1
BitIndex(size) == BitIndexFrom(size, 1)
IsPow2(size) == Len(size) = 8 /\ IsBytes(size) /\ BitIndex(size) >= 0
Mask(b, size) ==
  LET k == BitIndex(size) IN
  [i \in 1..8 |-> IF 8 * i <= k THEN b[i]
                  ELSE IF 8 * (i - 1) >= k THEN 0
                  ELSE b[i] % (2 ^ (k - 8 * (i - 1)))]

\* trailing zero bits of the LE u64 in the first 8 bytes
RECURSIVE TZFrom(_, _)
TZFrom(b, i) == IF i > 8 THEN 64
                ELSE IF b[i] = 0 THEN TZFrom(b, i + 1)
                ELSE 8 * (i - 1) + TZ8(b[i])
TZ64(b) == TZFrom(b, 1)

(***************************************************************************)
(* The machine: each operator returns                                      *)
(*   [st  |-> state after the call,                                        *)
(*    res |-> what the call returns,                                       *)
(*    src |-> the digests the returned values were read from,              *)
(*    ok  |-> FALSE iff a hash the machine needs is missing from ctx]      *)
(***************************************************************************)
St(s, c) == [s |-> s, c |-> c]
Ok(v)  == [t |-> "ok", v |-> v]
Err(k) == [t |-> "err", v |-> <<k>>]        \* k: the numbers the error value carries
Out(st, res, src) == [st |-> st, res |-> res, src |-> src, ok |-> TRUE]
Missing(st) == [st |-> st, res |-> Err(0), src |-> <<>>, ok |-> FALSE]

New(ctx, seed) ==
  LET s == HE(ctx, seed) IN
  IF s = NoDigest THEN Missing(St(NoDigest, 0)) ELSE Out(St(s, 0), Ok(<<>>), <<>>)

Reseed(ctx, st, d) ==
  LET s == M(ctx, st.s, d) IN
  IF s = NoDigest THEN Missing(st) ELSE Out(St(s, 0), Ok(<<>>), <<>>)

\* Candidate number j (counted from the counter c at entry): "missing" when the context has no such hash,
\* else accepted ("ok", with the element and the digest it was read from) or rejected ("rej").
Candidate(ctx, f, deg, s, c, j) ==
  LET h == MI(ctx, s, LE(c + j, 8)) IN
  IF h.d = NoDigest THEN [k |-> "missing", v |-> <<>>, d |-> NoDigest]
  ELSE LET e == Decode(f, deg, Take(h.b, Width(f) * deg)) IN
       [k |-> IF e.ok THEN "ok" ELSE "rej", v |-> e.v, d |-> h.d]

\* The loop "for _ in 0..MaxTries", evaluated in blocks of Block candidates (the first candidate that is not
\* rejected decides; candidates after it are not looked at by the machine).  Blocks keep TLC's recursion
\* shallow: 1000 nested evaluations made the trace validation of a failing draw 10x slower.
Block == 8
MinOf(S) == CHOOSE x \in S : \A y \in S : x <= y
RECURSIVE DrawFrom(_, _, _, _, _, _)
DrawFrom(ctx, f, deg, s, c, lo) ==
  IF lo > MaxTries THEN Out(St(s, c + MaxTries), Err(MaxTries), <<>>)
  ELSE LET hi   == Min2(lo + Block - 1, MaxTries)
           cand == [j \in lo..hi |-> Candidate(ctx, f, deg, s, c, j)]
           hits == {j \in lo..hi : cand[j].k # "rej"}
       IN IF hits = {} THEN DrawFrom(ctx, f, deg, s, c, hi + 1)
          ELSE LET j == MinOf(hits) IN
               IF cand[j].k = "missing" THEN Missing(St(s, c + j - 1))
               ELSE Out(St(s, c + j), Ok(cand[j].v), <<cand[j].d>>)
Draw(ctx, f, st, deg) == DrawFrom(ctx, f, deg, st.s, st.c, 1)

DrawIntegers(ctx, st, n, size, nonce) ==
  LET h0 == MI(ctx, st.s, nonce) IN
  IF h0.d = NoDigest THEN Missing(st)
  ELSE LET s1 == h0.d
           m  == Min2(n, MaxTries)
           hs == [j \in 1..m |-> MI(ctx, s1, LE(j, 8))]
       IN IF \E j \in 1..m : hs[j].d = NoDigest THEN Missing(St(s1, 0))
          ELSE IF n > MaxTries THEN Out(St(s1, MaxTries), Err(MaxTries), <<>>)
          ELSE Out(St(s1, n), Ok([j \in 1..n |-> Mask(hs[j].b, size)]), [j \in 1..n |-> hs[j].d])

LeadingZeros(ctx, st, nonce) ==
  LET h == MI(ctx, st.s, nonce) IN
  IF h.d = NoDigest THEN Missing(st) ELSE Out(st, Ok(<<TZ64(h.b)>>), <<h.d>>)

\* one call on an existing coin; op is a record [op, deg, n, size, nonce, d] (unused fields arbitrary)
Step(ctx, f, st, op) ==
  CASE op.op = "reseed" -> Reseed(ctx, st, op.d)
    [] op.op = "draw"   -> Draw(ctx, f, st, op.deg)
    [] op.op = "ints"   -> DrawIntegers(ctx, st, op.n, op.size, op.nonce)
    [] op.op = "lz"     -> LeadingZeros(ctx, st, op.nonce)

\* documented preconditions of draw_integers (it panics otherwise); generators respect them
IntsPre(op) == IsPow2(op.size) /\ BLess(BN(op.n), op.size)

(***************************************************************************)
(* What the property promises about results, independently of the machine  *)
(***************************************************************************)
WellFormedResult(f, op, res) ==
  CASE op.op = "draw" -> res.t = "ok" => ValidElem(f, op.deg, res.v)
    [] op.op = "ints" -> res.t = "ok" => /\ Len(res.v) = op.n
                                         /\ \A j \in 1..Len(res.v) :
                                               /\ Len(res.v[j]) = 8 /\ IsBytes(res.v[j])
                                               /\ BLess(res.v[j], op.size)
    [] op.op = "lz"   -> res.t = "ok" /\ res.v[1] \in 0..64
    [] OTHER          -> TRUE
=============================================================================
