------------------------------ MODULE Padding ------------------------------
(* C17 — hash padding separates inputs of different length.

   Rescue hashers (rp64, jive, rp62): on Sponge.tla with the permutation FREE (an ideal random
   permutation), the digest of a call is determined by its plan, and two calls of the same entry
   point collide — other than by a 2^-60 accident of the permutation — iff their NORMAL FORMS are
   equal, where the normal form of a plan is

       the output rule,
       the concrete state handed to the FIRST permutation (initial state with the first block's
       operations applied — exact modular arithmetic), and
       for every later block its operations as a full-width vector (position i: add v_i, default
       add 0, or set v_i), i.e. the next pre-permutation state as a function of the unknown previous
       permutation output;
       a plan without any permutation has the constant digest read from its initial state.

   (=>) equal normal forms give equal pre-permutation state sequences, hence equal digests.
   (<=) at the first difference either the concrete first states differ, or the same unknown state is
   modified differently (add v vs add v', v # v', never coincide; add v vs set c coincide only if the
   random word equals c - v), or one call stops where the other goes on; a bijective random permutation
   then separates the digests except with negligible probability.

   Byte hashers (b256, b192, sha3): the digest is the ideal primitive applied to the documented byte
   layout (hash(b) = b, merge / merge_many = concatenation of the digests, merge_with_int = digest ++
   LE64(value), hash_elements = concatenation of the 8-byte canonical encodings), so the normal form
   is the layout itself.

   TLC checks, per (hasher, entry point), that the normal form is INJECTIVE on the whole structured
   family of inputs — which covers every pair of distinct members: prefixes, zero-extensions by bytes
   / elements / digests, all lengths around multiples of 7 bytes and of the rate, the same run of
   elements cut at different digest boundaries, integers x, x + p, x + 2p .., the empty input.  Every
   member is printed and replayed on the real hashers, whose digests must be pairwise different.  A
   spec-level collision is printed as a design finding and counts only if the real digests agree. *)
EXTENDS Integers, Sequences, FiniteSets, TLC, Json, Sponge

CONSTANTS AllHashers,     \* subset of {"rp64", "jive", "rp62", "b256", "b192", "sha3"}
          MaxBytes,       \* hash: base strings of length 0..MaxBytes
          ByteExt,        \* hash: numbers of zero bytes appended (0 is always included)
          MaxRun,         \* element entry points: runs of 0..MaxRun pool elements
          MaxLead,        \* .. preceded by 0..MaxLead zero elements
          MaxTrail        \* .. followed by 0..MaxTrail zero elements

VARIABLE fam
vars == <<fam>>

IsRescue(h) == h \in Hashers
DigestBytes(h) == IF h = "b192" THEN 24 ELSE 32
\* field of the element arguments: the byte hashers are instantiated over the 64-bit field
FieldOf(h) == IF IsRescue(h) THEN h ELSE "rp64"

(***************************************************************************)
(* Inputs                                                                  *)
(***************************************************************************)
ByteAt(kind, i) == CASE kind = "idx"  -> (i * 7 + 1) % 256
                     [] kind = "zero" -> 0
                     [] kind = "one"  -> 1
                     [] kind = "ff"   -> 255
BKinds == {"zero", "idx", "one", "ff"}
MkBytes(kind, n) == [i \in 1..n |-> ByteAt(kind, i)]

Mix(i) == [b \in 1..8 |-> IF b = 8 THEN (i * 7) % 32 ELSE (b * i * 29 + 3 + i) % 256]
EVal(f, kind, i) ==
  CASE kind = "one"   -> <<1>>
    [] kind = "count" -> BN(i)                         \* 1, 2, 3, ..
    [] kind = "top"   -> BSub(P(f), BN(i))             \* p - 1, p - 2, ..
    [] kind = "mix"   -> Trim(Mix(i))
EKinds == {"one", "count", "top", "mix"}
ZeroEls(n) == [i \in 1..n |-> <<>>]
Run(f, kind, m) == [i \in 1..m |-> EVal(f, kind, i)]

\* flat element lists: lead zeros ++ run ++ trailing zeros
Flats(f) == {ZeroEls(s) \o Run(f, k, m) \o ZeroEls(t) : k \in EKinds, s \in 0..MaxLead, m \in 0..MaxRun, t \in 0..MaxTrail}
Group4(es) == [j \in 1..(Len(es) \div 4) |-> SubSeq(es, 4 * j - 3, 4 * j)]

\* byte hashers: a digest is DigestBytes(h) bytes; flat byte strings cut into digests
FlatBytes(h) == {Zeros(s * 8) \o MkBytes(k, m * 8) \o Zeros(t * 8)
                  : k \in BKinds \ {"zero"}, s \in 0..MaxLead, m \in 0..MaxRun, t \in 0..MaxTrail}
GroupD(h, bs) == LET d == DigestBytes(h) IN [j \in 1..(Len(bs) \div d) |-> SubSeq(bs, d * (j - 1) + 1, d * j)]

U64(v) == PadTo(v, 8)
PInts(f) ==       \* x, x + p, x + 2p, .. as long as they fit 64 bits, for small and large x
  LET ks == IF f = "rp62" THEN 0..4 ELSE 0..1
      xs == {<<>>, <<1>>, <<2>>, BSub(BPow2(32), BN(2)), BSub(BPow2(32), BN(3))}
  IN {U64(BAdd(BMulInt(P(f), k), x)) : k \in ks, x \in xs}
     \cup {U64(BSub(BMulInt(P(f), k), BOne)) : k \in ks \ {0}}
     \cup {U64(BPow2(32)), U64(BPow2(63)), <<255, 255, 255, 255, 255, 255, 255, 255>>}
ASSUME \A f \in Hashers : \A v \in PInts(f) : Len(v) = 8

Seeds(h) == IF IsRescue(h) THEN {ZeroEls(4), Run(h, "mix", 4)}
            ELSE {Zeros(DigestBytes(h)), MkBytes("idx", DigestBytes(h))}

Ops == {"hash", "hash_elements", "merge", "merge_many", "merge_with_int"}

Cases(h, op, deg) ==
  CASE op = "hash" ->
         {[h |-> h, op |-> op, bytes |-> MkBytes(k, n) \o Zeros(j)]
            : k \in BKinds, n \in 0..MaxBytes, j \in ByteExt \cup {0}}
    [] op = "hash_elements" ->
         \* elements of degree deg are deg consecutive base coordinates; lists of one degree form one family
         \* (lists of different degrees with the same coordinates hash alike by definition)
         {[h |-> h, op |-> op, deg |-> deg, elems |-> es] : es \in {x \in Flats(FieldOf(h)) : Len(x) % deg = 0}}
    [] op = "merge_many" ->
         IF IsRescue(h)
           THEN {[h |-> h, op |-> op, ds |-> Group4(es)] : es \in {x \in Flats(h) : Len(x) % 4 = 0}}
           ELSE {[h |-> h, op |-> op, ds |-> GroupD(h, bs)] : bs \in {x \in FlatBytes(h) : Len(x) % DigestBytes(h) = 0}}
    [] op = "merge" ->
         IF IsRescue(h)
           THEN {[h |-> h, op |-> op, ds |-> Group4(es)] : es \in {x \in Flats(h) : Len(x) = 8}}
           ELSE {[h |-> h, op |-> op, ds |-> GroupD(h, bs)] : bs \in {x \in FlatBytes(h) : Len(x) = 2 * DigestBytes(h)}}
    [] op = "merge_with_int" ->
         {[h |-> h, op |-> op, ds |-> <<s>>, int |-> v] : s \in Seeds(h), v \in PInts(FieldOf(h))}

(***************************************************************************)
(* Normal forms                                                            *)
(***************************************************************************)
Plan(c) ==
  CASE c.op = "hash"           -> Hash(c.h, c.bytes)
    [] c.op = "hash_elements"  -> HashElements(c.h, c.elems)
    [] c.op = "merge"          -> Merge(c.h, c.ds[1], c.ds[2])
    [] c.op = "merge_many"     -> MergeMany(c.h, c.ds)
    [] c.op = "merge_with_int" -> MergeWithInt(c.h, c.ds[1], c.int)

\* the operation a block performs on state word i
OpAt(block, i) == IF \E o \in 1..Len(block) : block[o].i = i
                    THEN LET o == CHOOSE o \in 1..Len(block) : block[o].i = i IN <<block[o].k, block[o].v>>
                    ELSE <<"add", <<>>>>
BlockVector(h, block) == [i \in 1..Width(h) |-> OpAt(block, i)]
ApplyBlock(h, st, block) ==
  [i \in 1..Width(h) |-> LET o == OpAt(block, i) IN
                         IF o[1] = "set" THEN o[2] ELSE ModAdd(st[i], o[2], P(h))]

NormalForm(h, pl) ==
  IF Len(pl.blocks) = 0
    THEN [out |-> pl.out.k, const |-> [j \in 1..Len(pl.out.pos) |-> pl.init[pl.out.pos[j]]],
          first |-> <<>>, rest |-> <<>>]
    ELSE [out |-> pl.out.k, const |-> <<>>, first |-> ApplyBlock(h, pl.init, pl.blocks[1]),
          rest |-> [b \in 1..(Len(pl.blocks) - 1) |-> BlockVector(h, pl.blocks[b + 1])]]

\* byte layout handed to the primitive by the byte hashers
Layout(c) ==
  CASE c.op = "hash"           -> c.bytes
    [] c.op = "hash_elements"  -> Concat([i \in 1..Len(c.elems) |-> PadTo(c.elems[i], 8)])
    [] c.op \in {"merge", "merge_many"} -> Concat(c.ds)
    [] c.op = "merge_with_int" -> c.ds[1] \o c.int

NF(c) == IF IsRescue(c.h) THEN NormalForm(c.h, Plan(c)) ELSE Layout(c)

(***************************************************************************)
(* One family per initial state                                            *)
(***************************************************************************)
Init == fam \in {[h |-> h, op |-> op, deg |-> 1] : h \in AllHashers, op \in Ops}
               \cup {[h |-> h, op |-> "hash_elements", deg |-> d] : h \in AllHashers, d \in {2, 3}}
Next == UNCHANGED fam
Spec == Init /\ [][Next]_vars

Members == Cases(fam.h, fam.op, fam.deg)

\* injectivity of the normal form on the family = no pair of distinct members collides
Injective(S) == Cardinality({NF(c) : c \in S}) = Cardinality(S)

\* always TRUE: a collision is a design finding, printed with the pair; the check confirms it on the
\* real code before it counts.  Every member is printed for the replay on the real hashers.
Report(S) ==
  IF Injective(S) THEN PrintT(<<"FAMILY", ToJson([h |-> fam.h, op |-> fam.op, deg |-> fam.deg, members |-> Cardinality(S)])>>)
  ELSE \A x \in S : \A y \in S :
         (x # y /\ NF(x) = NF(y)) => PrintT(<<"COLLISION", ToJson([x |-> x, y |-> y])>>)
Emit(S) == \A c \in S : PrintT(<<"REPLAY", ToJson(c)>>)
Separates == LET S == Members IN Report(S) /\ Emit(S)
SeparatesOnly == Report(Members)
=============================================================================
