----------------------------- MODULE RescuePerm -----------------------------
(* C16 (permutation part) — the DEFINITION of the Rescue-Prime (Rescue-XLIX) permutation used by
   winterfell's three algebraic hashers, independent of the optimised Rust code:

       hasher   field modulus p            state  alpha  MDS
       rp64     2^64 - 2^32 + 1            12     7      circulant, first row 7 23 8 26 13 10 9 7 6 22 21 8
       jive     2^64 - 2^32 + 1             8     7      circulant, first row 23 8 13 10 7 6 21 8
       rp62     2^62 - 111 * 2^39 + 1      12     3      12x12 matrix of algorithm 4 (pinned, RescueConsts)

   One ROUND maps a state s to a state t (eprint 2020/1143, algorithm 3; 7 rounds):

       u_i = s_i ^ alpha                          S-box: the power map
       A   = ARK1[r] + MDS * u                    plain matrix-vector product, then round constants
       y_i = THE y with y ^ alpha = A_i           inverse S-box, BY ITS DEFINING EQUATION
       t   = ARK2[r] + MDS * y

   alpha is coprime to p - 1 (ASSUMEd below), so the power map is a bijection and y is unique.
   Nothing here computes a modular product: `RoundOk` CHECKS a claimed round (input, output and the
   untrusted intermediate values / quotients logged by the recorder) link by link with exact integer
   arithmetic over BigNat — every link is an equation  x = q*p + r /\ r < p  with a unique solution
   r, so the chain  s -> u -> A -> y -> t  forces t to be THE image of s; a wrong hint can only make
   a right output look wrong, never a wrong output look right (mechanism D of DESIGN.md).

   The frequency-domain MDS multiplication (crypto/src/hash/mds), the unrolled exp7 and the
   inverse-S-box addition chains of the Rust code appear nowhere: the matrix and the exponent are
   the definition. *)
EXTENDS Integers, Sequences, BigNat, RescueConsts

Hashers == {"rp64", "jive", "rp62"}
NumRounds == 7

P64 == <<1, 0, 0, 0, 255, 255, 255, 255>>            \* 2^64 - 2^32 + 1
P62 == <<1, 0, 0, 0, 128, 200, 255, 63>>             \* 2^62 - 111 * 2^39 + 1
P(h)     == IF h = "rp62" THEN P62 ELSE P64
Alpha(h) == IF h = "rp62" THEN 3 ELSE 7
Width(h) == IF h = "jive" THEN 8 ELSE 12

\* the moduli from their documented closed forms
ASSUME BEq(P64, BAdd(BSub(BPow2(64), BPow2(32)), BOne))
ASSUME BEq(P62, BAdd(BSub(BPow2(62), BMulInt(BPow2(39), 111)), BOne))
\* alpha is a prime not dividing p - 1: x |-> x^alpha is a permutation of the field
ASSUME \A h \in Hashers : BDivModInt(BSub(P(h), BOne), Alpha(h))[2] # 0

(* MDS matrices. The two 64-bit hashers document a circulant matrix by its first row
   (crypto/src/hash/mds/mds_f64_12x12.rs, mds_f64_8x8.rs): row i is the first row rotated right by
   i places, entry (i, j) = first[(j - i) mod n]. *)
First12 == <<7, 23, 8, 26, 13, 10, 9, 7, 6, 22, 21, 8>>
First8  == <<23, 8, 13, 10, 7, 6, 21, 8>>
Circulant(first) == LET n == Len(first) IN
                    [i \in 1..n |-> [j \in 1..n |-> BN(first[((j - i) % n) + 1])]]
Mds_rp64 == Circulant(First12)
Mds_jive == Circulant(First8)

Mds(h)    == CASE h = "rp64" -> Mds_rp64 [] h = "jive" -> Mds_jive [] h = "rp62" -> Mds_rp62
InvMds(h) == CASE h = "rp64" -> InvMds_rp64 [] h = "jive" -> InvMds_jive
Ark1(h)   == CASE h = "rp64" -> Ark1_rp64 [] h = "jive" -> Ark1_jive [] h = "rp62" -> Ark1_rp62
Ark2(h)   == CASE h = "rp64" -> Ark2_rp64 [] h = "jive" -> Ark2_jive [] h = "rp62" -> Ark2_rp62
KatIn(h)  == CASE h = "rp64" -> KatIn_rp64 [] h = "jive" -> KatIn_jive [] h = "rp62" -> KatIn_rp62
KatOut(h) == CASE h = "rp64" -> KatOut_rp64 [] h = "jive" -> KatOut_jive [] h = "rp62" -> KatOut_rp62

Canon(x, p) == BLess(x, p)
IsState(h, s) == Len(s) = Width(h) /\ \A i \in 1..Width(h) : Canon(s[i], P(h))
StateEq(s, t) == Len(s) = Len(t) /\ \A i \in 1..Len(s) : BEq(s[i], t[i])
MatEq(a, b) == Len(a) = Len(b) /\ \A i \in 1..Len(a) : StateEq(a[i], b[i])

(* res = x^a by the definition x^a = x * x * .. * x:  c = <<v2, q2, v3, q3, .., va, qa>> with
   v_k = v_(k-1) * x mod p (v_1 = x), each product certified by its quotient, and v_a = res. *)
PowIs(x, a, c, res, p) ==
  /\ Len(c) = 2 * (a - 1)
  /\ \A k \in 2..a :
        IsModMul(IF k = 2 THEN x ELSE c[2 * (k - 2) - 1], x, c[2 * (k - 1) - 1], c[2 * (k - 1)], p)
  /\ BEq(c[2 * (a - 1) - 1], res)

(* t_i = ark_i + sum_j M[i][j] * s_j  (mod p), quotient hints q *)
\* sum_j row[j] * s[j] as ONE schoolbook convolution: column k collects row[j][i] * s[j][k + 1 - i]
\* over all j and i, then a single carry propagation (at most 12 * 8 products < 2^16 per column,
\* far below the wide-digit bound of BigNat!Carry)
RECURSIVE ColSum(_, _, _, _)
ColSum(a, b, k, i) == IF i > Len(a) \/ i > k THEN 0
                      ELSE (IF k + 1 - i <= Len(b) THEN a[i] * b[k + 1 - i] ELSE 0) + ColSum(a, b, k, i + 1)
RECURSIVE DotCol(_, _, _, _)
DotCol(row, s, k, j) == IF j > Len(row) THEN 0 ELSE ColSum(row[j], s[j], k, 1) + DotCol(row, s, k, j + 1)
Dot(row, s) == Carry([k \in 1..16 |-> DotCol(row, s, k, 1)])      \* operands have at most 8 digits
AffineIs(M, ark, s, t, q, p) ==
  /\ Len(q) = Len(s) /\ Len(t) = Len(s)
  /\ \A i \in 1..Len(s) : IsDivMod(BAdd(ark[i], Dot(M[i], s)), p, q[i], t[i])

(* One round, r in 0..6.  w is the recorder's witness record:
     w.sb[i] = <<s_i^2, q, .., s_i^alpha, q>>        power chain of the S-box
     w.a[i]  = <<A_i, q>>                            first affine layer
     w.y[i]  = <<y_i, y_i^2, q, .., y_i^alpha, q>>   claimed inverse-S-box value and ITS power chain
     w.o[i]  = q                                     second affine layer (its value is out[i]) *)
U(h, w) == [i \in 1..Width(h) |-> w.sb[i][2 * (Alpha(h) - 1) - 1]]
A(h, w) == [i \in 1..Width(h) |-> w.a[i][1]]
Y(h, w) == [i \in 1..Width(h) |-> w.y[i][1]]

RoundOk(h, r, in, out, w) ==
  LET p == P(h)  n == Width(h)  a == Alpha(h) IN
  /\ r \in 0..(NumRounds - 1)
  /\ IsState(h, in) /\ IsState(h, out)
  /\ Len(w.sb) = n /\ Len(w.a) = n /\ Len(w.y) = n /\ Len(w.o) = n
  /\ \A i \in 1..n : PowIs(in[i], a, w.sb[i], U(h, w)[i], p)
  /\ AffineIs(Mds(h), Ark1(h)[r + 1], U(h, w), A(h, w), [i \in 1..n |-> w.a[i][2]], p)
  /\ \A i \in 1..n : /\ Canon(w.y[i][1], p)
                     /\ PowIs(w.y[i][1], a, Tail(w.y[i]), w.a[i][1], p)
  /\ AffineIs(Mds(h), Ark2(h)[r + 1], Y(h, w), out, w.o, p)

(* Design-level sanity of the data (checked by TLC in MCRescuePerm, hint-free): the inverse matrices
   the 64-bit hashers publish are the inverses of the documented circulant matrices. *)
\* special-form reduction modulo 2^64 - 2^32 + 1:  hi * 2^64 + lo = hi * p + (lo + hi * (2^32 - 1))
RECURSIVE Mod64(_)
Mod64(x) == IF Len(Trim(x)) <= 8
              THEN (IF BLess(x, P64) THEN Trim(x) ELSE BSub(x, P64))
              ELSE Mod64(BAdd(SubSeq(x, 1, 8), BMul(SubSeq(x, 9, Len(x)), <<255, 255, 255, 255>>)))
ASSUME BEq(BAdd(P64, <<255, 255, 255, 255>>), BPow2(64))
MatMulMod(a, b, p) ==
  LET n == Len(a) IN
  [i \in 1..n |-> [j \in 1..n |-> LET d == Dot(a[i], [k \in 1..n |-> b[k][j]])
                                   IN IF p = P64 THEN Mod64(d) ELSE BMod(d, p)]]
Identity(n) == [i \in 1..n |-> [j \in 1..n |-> IF i = j THEN <<1>> ELSE <<>>]]
InverseOk(h) == MatEq(MatMulMod(Mds(h), InvMds(h), P(h)), Identity(Width(h)))
ShapeOk(h) == /\ Len(Mds(h)) = Width(h) /\ \A i \in 1..Width(h) : IsState(h, Mds(h)[i])
              /\ Len(Ark1(h)) = NumRounds /\ Len(Ark2(h)) = NumRounds
              /\ \A r \in 1..NumRounds : IsState(h, Ark1(h)[r]) /\ IsState(h, Ark2(h)[r])
              /\ IsState(h, KatIn(h)) /\ IsState(h, KatOut(h))
=============================================================================
