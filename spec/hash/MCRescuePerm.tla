---------------------------- MODULE MCRescuePerm ----------------------------
(* Design-level check of the data RescuePerm is built on (hint-free, exact arithmetic):
   shapes and ranges of every table, and MDS * INV_MDS = I for the two 64-bit hashers, whose
   inverse matrices are public constants of the code.  One trivial behaviour; the work is in the
   ASSUMEs, which TLC evaluates before model checking. *)
EXTENDS RescuePerm, TLC

ASSUME \A h \in Hashers : ShapeOk(h)
ASSUME InverseOk("rp64")
ASSUME InverseOk("jive")

VARIABLE x
Init == x = 0
Next == x < 2 /\ x' = x + 1
Spec == Init /\ [][Next]_x
=============================================================================
