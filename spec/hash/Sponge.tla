------------------------------- MODULE Sponge -------------------------------
(* C16 (modes part) and the base of C17 — the hashing MODES of winterfell's three Rescue hashers as
   documented in crypto/src/hash/rescue/{rp64_256,rp64_256_jive,rp62_248}/mod.rs, stated over a FREE
   permutation (mechanism C of DESIGN.md): nothing here evaluates Rescue.

       hasher  state  rate positions   capacity word used      digest
       rp64    12     5..12 (8 words)  word 1 = element count  words 5..8
       rp62    12     1..8  (8 words)  word 12 = element count words 1..4
       jive     8     5..8  (4 words)  word 1 = 1 iff the element count is not a multiple of 4
                                                               words 5..8 (sponge mode)

   A call is described by its PLAN: the initial state, then one BLOCK per permutation call — the
   operations applied to the state just before that permutation, each `add v at position i`
   (absorption by field addition) or `set v at position i` (the Jive padding rule writes 1, 0, .. into
   the rate words after the absorbed ones) — and the output rule: `words` (digest = listed state
   words after the last permutation; the initial state itself when there is no block) or `jive`
   (digest word i = sum over the listed positions of the state before AND after the permutation).

   hash_elements(e_1..e_n)   sponge over the base-field coordinates, 8 (4) per block, count / flag in
                             the capacity, no padding for rp64 / rp62 ("pad with zeros" = add nothing),
                             1,0,..,0 written after a partial last block for jive
   hash(bytes)               hash_elements of the 7-byte little-endian chunks, the LAST chunk (possibly
                             shorter, never empty) followed by one byte 1; no chunk for the empty string
   merge(a, b)               rp64 / rp62: hash_elements(a ++ b)   ("merging two digests equals hashing
                             their eight elements");  jive: state = a ++ b, one permutation, Jive sum
   merge_many(ds)            hash_elements(concatenation of the digests)          (all three hashers)
   merge_with_int(s, v)      v < p: elements s ++ <<v>>;  otherwise s ++ <<v mod p, v div p>>;
                             rp64 / rp62: hash_elements of them;  jive: state = those 5 (6) elements,
                             zero fill, LAST word = 5 (6), one permutation, Jive sum

   The plan is emitted as the expected TERM of a case; the harness evaluates it with the real
   permutation and real field addition and compares with the real entry point. *)
EXTENDS Integers, Sequences, Bytes, BigNat

Hashers == {"rp64", "jive", "rp62"}

P64 == <<1, 0, 0, 0, 255, 255, 255, 255>>            \* 2^64 - 2^32 + 1
P62 == <<1, 0, 0, 0, 128, 200, 255, 63>>             \* 2^62 - 111 * 2^39 + 1
P(h)     == IF h = "rp62" THEN P62 ELSE P64
Width(h) == IF h = "jive" THEN 8 ELSE 12
Rate(h)  == IF h = "jive" THEN 4 ELSE 8
DigestSize == 4

\* 1-based state position of rate word i (1..Rate)
RatePos(h, i) == IF h = "rp62" THEN i ELSE 4 + i
\* state word carrying the element count (rp64, rp62)
CountPos(h) == IF h = "rp62" THEN 12 ELSE 1
DigestPos(h) == IF h = "rp62" THEN <<1, 2, 3, 4>> ELSE <<5, 6, 7, 8>>

ZeroState(h) == [i \in 1..Width(h) |-> <<>>]
Add(i, v) == [k |-> "add", i |-> i, v |-> v]
Set(i, v) == [k |-> "set", i |-> i, v |-> v]
Words(h) == [k |-> "words", pos |-> DigestPos(h)]
JiveSum  == [k |-> "jive", pos |-> << <<1, 5>>, <<2, 6>>, <<3, 7>>, <<4, 8>> >>]

(***************************************************************************)
(* hash_elements                                                           *)
(***************************************************************************)
SpongeInit(h, n) ==
  IF h = "jive" THEN [ZeroState(h) EXCEPT ![1] = IF n % Rate(h) # 0 THEN <<1>> ELSE <<>>]
                ELSE [ZeroState(h) EXCEPT ![CountPos(h)] = BN(n)]

NumBlocks(h, n) == (n + Rate(h) - 1) \div Rate(h)

Block(h, es, b) ==
  LET lo   == (b - 1) * Rate(h)
      cnt  == Min2(Rate(h), Len(es) - lo)
      adds == [i \in 1..cnt |-> Add(RatePos(h, i), es[lo + i])]
      pad  == IF h = "jive" /\ cnt < Rate(h)
                THEN [i \in 1..(Rate(h) - cnt) |-> Set(RatePos(h, cnt + i), IF i = 1 THEN <<1>> ELSE <<>>)]
                ELSE <<>>
  IN adds \o pad

\* es: canonical values (BigNat, < p) of the base-field coordinates, in order
HashElements(h, es) ==
  [init   |-> SpongeInit(h, Len(es)),
   blocks |-> [b \in 1..NumBlocks(h, Len(es)) |-> Block(h, es, b)],
   out    |-> Words(h)]

(***************************************************************************)
(* hash(bytes)                                                             *)
(***************************************************************************)
NumChunks(bs) == (Len(bs) + 6) \div 7
ChunkValue(bs, k) ==
  LET c == SubSeq(bs, 7 * (k - 1) + 1, Min2(7 * k, Len(bs)))
  IN Trim(IF k < NumChunks(bs) THEN c ELSE c \o <<1>>)
BytesToElements(bs) == [k \in 1..NumChunks(bs) |-> ChunkValue(bs, k)]
Hash(h, bs) == HashElements(h, BytesToElements(bs))

(***************************************************************************)
(* merge, merge_many, merge_with_int                                       *)
(***************************************************************************)
\* v = q * p + r by repeated subtraction (q <= 4 for a 64-bit v and the 62-bit prime)
RECURSIVE DivModP(_, _, _)
DivModP(v, p, q) == IF BLess(v, p) THEN <<q, Trim(v)>> ELSE DivModP(BSub(v, p), p, q + 1)

IntElements(h, v) == LET qr == DivModP(v, P(h), 0) IN
                     IF qr[1] = 0 THEN <<qr[2]>> ELSE <<qr[2], BN(qr[1])>>

Merge(h, a, b) ==
  IF h = "jive" THEN [init |-> a \o b, blocks |-> << <<>> >>, out |-> JiveSum]
                ELSE HashElements(h, a \o b)

MergeMany(h, ds) == HashElements(h, Concat(ds))

MergeWithInt(h, s, v) ==
  LET es == s \o IntElements(h, v) IN
  IF h = "jive"
    THEN [init   |-> [i \in 1..8 |-> IF i <= Len(es) THEN es[i] ELSE IF i = 8 THEN BN(Len(es)) ELSE <<>>],
          blocks |-> << <<>> >>, out |-> JiveSum]
    ELSE HashElements(h, es)

(***************************************************************************)
(* Well-formedness of a plan (design-level sanity, checked with every case) *)
(***************************************************************************)
PlanOk(h, pl) ==
  /\ Len(pl.init) = Width(h) /\ \A i \in 1..Width(h) : BLess(pl.init[i], P(h))
  /\ \A b \in 1..Len(pl.blocks) : \A o \in 1..Len(pl.blocks[b]) :
        LET op == pl.blocks[b][o] IN
        /\ op.k \in {"add", "set"} /\ op.i \in 1..Width(h) /\ BLess(op.v, P(h)) /\ op.v = Trim(op.v)
        \* a block touches rate words only, each at most once
        /\ op.i \in {RatePos(h, i) : i \in 1..Rate(h)}
        /\ \A o2 \in 1..Len(pl.blocks[b]) : o2 # o => pl.blocks[b][o2].i # op.i
  /\ (pl.out.k = "jive" => Len(pl.blocks) = 1)
=============================================================================
