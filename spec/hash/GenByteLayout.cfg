\* One case per initial state; the invariant Emit prints the scenario with its expected term.
SPECIFICATION Spec
CONSTANTS MaxDigests = 5  MaxElems = 9
  Hashers <- HashersAll  ByteLens <- LensQuick  Kinds <- KindsTwo  Ints <- IntsAll
  Fields <- FieldsAll  LongElems <- LongQuick  Sels <- SelsQuick
INVARIANT WellFormed Emit
CHECK_DEADLOCK FALSE
