------------------------------ MODULE MCSponge ------------------------------
(* Generator instances of GenSponge: constants that are not plain numbers. *)
EXTENDS GenSponge

LensQuick    == 0..120
LensThorough == (0..300) \cup {335, 336, 337, 391, 392, 393, 511, 512, 1000}
KindsQuick   == {"idx", "zero"}
KindsAll     == {"idx", "zero", "ff", "mix"}
EKindsAll    == {"small", "top", "mix"}
=============================================================================
