-------------------------- MODULE TraceRescuePerm --------------------------
(* C16 (permutation part) — trace validation of recorded permutation calls of the real Rescue
   hashers against the definition in RescuePerm (mechanisms B + D of DESIGN.md).

   The ndjson trace named by the environment variable TRACE is written by `wf-rescue perm`:

     {ev: "consts", h, mds, inv, ark1, ark2}   the public constants of Rp64_256 / RpJive64_256
     {ev: "begin",  h, pid, in, kat}           state handed to the real apply_permutation
     {ev: "round",  h, pid, r, in, out, w, chain}
           chain = 1: link r of the decomposition of permutation `pid` (in/out are the recorder's
                      own intermediate states, i.e. untrusted hints — each is forced by RoundOk);
           chain = 0: a call of the real public `apply_round(state, r)` (in/out are real values)
     {ev: "end",    h, pid, out, kat}          state the real apply_permutation returned

   A permutation is accepted iff  begin.in = round_0.in,  round_r.out = round_(r+1).in,
   round_6.out = end.out  and every round is a Rescue round by definition (RescuePerm!RoundOk);
   with kat = 1 the input / output must also be the known-answer vector of the sage reference
   implementation pinned in RescueConsts.  Events are self-contained up to the look-back at the
   previous event, so validation continues after an unexplained event and prints its index. *)
EXTENDS Integers, Sequences, TLC, Json, IOUtils, RescuePerm

Rec == ndJsonDeserialize(IOEnv.TRACE)

VARIABLE l

Has(e, k) == k \in DOMAIN e
Returned(e) == ~Has(e, "panic")

Prev(k) == Rec[k - 1]

Explains(k) ==
  LET e == Rec[k] IN
  /\ Returned(e)
  /\ e.h \in Hashers
  /\ CASE e.ev = "consts" ->
            /\ e.h \in {"rp64", "jive"}
            /\ MatEq(e.mds, Mds(e.h)) /\ MatEq(e.inv, InvMds(e.h))
            /\ MatEq(e.ark1, Ark1(e.h)) /\ MatEq(e.ark2, Ark2(e.h))
       [] e.ev = "begin" ->
            /\ IsState(e.h, e.in)
            /\ (e.kat = 1 => StateEq(e.in, KatIn(e.h)))
       [] e.ev = "round" ->
            /\ RoundOk(e.h, e.r, e.in, e.out, e.w)
            /\ (e.chain = 1 =>
                  /\ k > 1 /\ Prev(k).h = e.h /\ Prev(k).pid = e.pid
                  /\ IF e.r = 0 THEN Prev(k).ev = "begin" /\ StateEq(Prev(k).in, e.in)
                               ELSE /\ Prev(k).ev = "round" /\ Prev(k).chain = 1 /\ Prev(k).r = e.r - 1
                                    /\ StateEq(Prev(k).out, e.in))
       [] e.ev = "end" ->
            /\ IsState(e.h, e.out)
            /\ k > 1 /\ Prev(k).h = e.h /\ Prev(k).pid = e.pid
            /\ Prev(k).ev = "round" /\ Prev(k).chain = 1 /\ Prev(k).r = NumRounds - 1
            /\ StateEq(Prev(k).out, e.out)
            /\ (e.kat = 1 => StateEq(e.out, KatOut(e.h)))
       [] OTHER -> FALSE

Reject(i) == PrintT(<<"REJECTED_EVENT", i>>)

Init == l = 1
Next == /\ l <= Len(Rec)
        /\ IF Explains(l) THEN TRUE ELSE Reject(l)
        /\ l' = l + 1
Spec == Init /\ [][Next]_l

Progress == TLCSet(7, l)
Accepted == IF TLCGet(7) = Len(Rec) + 1 THEN PrintT(<<"CONSUMED", Len(Rec)>>)
            ELSE Print(<<"STOPPED_AT", TLCGet(7)>>, FALSE)
=============================================================================
