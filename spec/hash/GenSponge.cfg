\* C16 modes, quick: one case per initial state; the invariant Emit prints it with its expected plan.
SPECIFICATION Spec
CONSTANTS MaxElems = 20  MaxDigests = 5
  ByteLens <- LensQuick  Kinds <- KindsQuick  EKinds <- EKindsAll
INVARIANT WellFormed Emit
CHECK_DEADLOCK FALSE
