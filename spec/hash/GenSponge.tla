----------------------------- MODULE GenSponge -----------------------------
(* C16 (modes part) — generator: every case is an initial state; the invariant `Emit` (always TRUE)
   prints the case with the PLAN the specification computed (Sponge.tla) as its expected term;
   `WellFormed` is the design-level sanity check of the plan.  Arguments are enumerated:

     hash            byte strings of every length in ByteLens, content kinds Kinds
     hash_elements   0..MaxElems base-field coordinates, grouped into elements of degree 1, 2, 3
                     (the hashers absorb the base-field coordinates of extension elements in order)
     merge           pairs of digests; merge_many: 0..MaxDigests digests
     merge_with_int  a seed digest and the u64 values {0, 1, 2^32 - 1, 2^32, p - 1, p, p + 1, ..,
                     k*p - 1, k*p, k*p + 1 (k*p < 2^64), 2^64 - 1}

   Element values come from three pools: small (0, 1, 2, ..), top (p - 1, p - 2, ..) and mixed 8-byte
   patterns below p. *)
EXTENDS Integers, Sequences, TLC, Json, Sponge

CONSTANTS ByteLens, Kinds, MaxElems, MaxDigests, EKinds

VARIABLE case
vars == <<case>>

ByteAt(kind, i) == CASE kind = "idx"  -> (i * 7 + 1) % 256
                     [] kind = "zero" -> 0
                     [] kind = "ff"   -> 255
                     [] kind = "mix"  -> (i * 37 + 91) % 256
MkBytes(kind, n) == [i \in 1..n |-> ByteAt(kind, i)]

\* element value number i (1-based) of a pool, canonical and below both primes where it matters
Mix(i) == [b \in 1..8 |-> IF b = 8 THEN (i * 7) % 32 ELSE (b * i * 29 + 3 + i) % 256]   \* < 2^61
EVal(h, kind, i) ==
  CASE kind = "small" -> BN(i - 1)
    [] kind = "top"   -> BSub(P(h), BN(i))
    [] kind = "mix"   -> Trim(Mix(i))
MkElems(h, kind, n, off) == [i \in 1..n |-> EVal(h, kind, i + off)]
MkDigest(h, kind, j) == MkElems(h, kind, DigestSize, DigestSize * (j - 1))
MkDigests(h, kind, k) == [j \in 1..k |-> MkDigest(h, kind, j)]

U64(v) == PadTo(v, 8)
TwoTo64m1 == <<255, 255, 255, 255, 255, 255, 255, 255>>
Multiples(h) == IF h = "rp62" THEN 1..4 ELSE {1}          \* k with k * p < 2^64
Ints(h) ==
  {U64(<<>>), U64(<<1>>), U64(BSub(BPow2(32), BOne)), U64(BPow2(32)), U64(BSub(P(h), BOne)),
   U64(BPow2(62)), U64(BPow2(63)), TwoTo64m1, <<1, 2, 3, 4, 5, 6, 7, 8>>}
  \cup UNION {{U64(BSub(BMulInt(P(h), k), BOne)), U64(BMulInt(P(h), k)), U64(BAdd(BMulInt(P(h), k), BOne))}
              : k \in Multiples(h)}

Cases ==
  {[h |-> h, op |-> "hash", bytes |-> MkBytes(k, n)] : h \in Hashers, k \in Kinds, n \in ByteLens}
  \cup UNION {{[h |-> h, op |-> "hash_elements", deg |-> d, elems |-> MkElems(h, k, n, 0)]
                : h \in Hashers, k \in EKinds, n \in {m \in 0..MaxElems : m % d = 0}} : d \in 1..3}
  \cup {[h |-> h, op |-> "merge", ds |-> <<MkDigest(h, k1, 1), MkDigest(h, k2, 2)>>]
         : h \in Hashers, k1 \in EKinds, k2 \in EKinds}
  \cup {[h |-> h, op |-> "merge_many", ds |-> MkDigests(h, k, n)]
         : h \in Hashers, k \in EKinds, n \in 0..MaxDigests}
  \cup {[h |-> h, op |-> "merge_with_int", ds |-> <<MkDigest(h, k, 1)>>, int |-> v]
         : h \in Hashers, k \in EKinds, v \in UNION {Ints(hh) : hh \in Hashers}}

Plan(c) ==
  CASE c.op = "hash"           -> Hash(c.h, c.bytes)
    [] c.op = "hash_elements"  -> HashElements(c.h, c.elems)
    [] c.op = "merge"          -> Merge(c.h, c.ds[1], c.ds[2])
    [] c.op = "merge_many"     -> MergeMany(c.h, c.ds)
    [] c.op = "merge_with_int" -> MergeWithInt(c.h, c.ds[1], c.int)

Init == case \in Cases
Next == UNCHANGED case
Spec == Init /\ [][Next]_vars

WellFormed == PlanOk(case.h, Plan(case))
Emit == PrintT(<<"REPLAY", ToJson([c |-> case, exp |-> Plan(case)])>>)
=============================================================================
