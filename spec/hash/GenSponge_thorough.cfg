\* C16 modes, thorough.
SPECIFICATION Spec
CONSTANTS MaxElems = 42  MaxDigests = 9
  ByteLens <- LensThorough  Kinds <- KindsAll  EKinds <- EKindsAll
INVARIANT WellFormed Emit
CHECK_DEADLOCK FALSE
