SPECIFICATION Spec
CONSTANTS MaxDigests = 12  MaxElems = 20
  Hashers <- HashersAll  ByteLens <- LensThorough  Kinds <- KindsAll  Ints <- IntsAll
  Fields <- FieldsAll  LongElems <- LongThorough  Sels <- SelsThorough
INVARIANT WellFormed Emit
CHECK_DEADLOCK FALSE
