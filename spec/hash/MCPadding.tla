----------------------------- MODULE MCPadding -----------------------------
(* Instances of Padding: constants that are not plain numbers. *)
EXTENDS Padding

HashersAll == {"rp64", "jive", "rp62", "b256", "b192", "sha3"}
\* zero bytes appended: around one chunk (7), one block of the 4-word rate (28) and of the 8-word rate (56)
ExtQuick    == {1, 6, 7, 8, 27, 28, 29, 55, 56, 57}
ExtThorough == (1..15) \cup {20, 21, 22, 27, 28, 29, 34, 35, 36, 55, 56, 57, 63, 111, 112, 113}
=============================================================================
