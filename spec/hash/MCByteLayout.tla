---------------------------- MODULE MCByteLayout ----------------------------
(* Generator instances of ByteLayout: constants that are not plain numbers. *)
EXTENDS ByteLayout

HashersAll == {"b256", "b192", "sha3"}
KindsTwo   == {"idx", "mix"}
KindsAll   == {"idx", "mix", "ff"}
\* 0..70 crosses the 64-byte BLAKE3 block; 135..137 the SHA3-256 rate; 1023..1025 the BLAKE3 chunk
LensQuick    == (0..70) \cup {127, 128, 129, 135, 136, 137, 1023, 1024, 1025}
LensThorough == (0..300) \cup {1023, 1024, 1025, 2048, 2049, 3000}
\* 0, 1, 2^32, 2^63, 2^64 - 1 and a value with eight different bytes
IntsAll == { <<0, 0, 0, 0, 0, 0, 0, 0>>, <<1, 0, 0, 0, 0, 0, 0, 0>>, <<0, 0, 0, 0, 1, 0, 0, 0>>,
             <<0, 0, 0, 0, 0, 0, 0, 128>>, <<255, 255, 255, 255, 255, 255, 255, 255>>,
             <<1, 2, 3, 4, 5, 6, 7, 8>>, <<0, 1, 0, 0, 0, 0, 0, 0>>, <<255, 255, 255, 255, 0, 0, 0, 0>> }
FieldsAll == AllFields
\* element lists whose serialisation crosses 1024 bytes (128 x 8, 64 x 16, 42.67 x 24) and 2048 bytes
LongQuick    == {41, 42, 43, 64, 65, 128, 129}
LongThorough == LongQuick \cup {63, 85, 86, 127, 171, 172, 256, 257}
SelsQuick    == { <<0, 1>>, <<9, 1>>, <<18, 1>>, <<27, 1>>, <<3, 7>> }
SelsThorough == { <<s, 1>> : s \in 0..37 } \cup { <<3, 7>>, <<1, 5>>, <<0, 11>>, <<2, 13>> }
=============================================================================
