\* C17 quick: hash over 0..72 bytes (+ zero extensions): > 2 blocks of the 4-word rate, 1.3 of the 8-word
\* rate with extensions reaching 2.3; element runs up to 3 blocks of the 4-word rate / 2 of the 8-word rate.
SPECIFICATION Spec
CONSTANTS MaxBytes = 72  MaxRun = 10  MaxLead = 3  MaxTrail = 9
  AllHashers <- HashersAll  ByteExt <- ExtQuick
INVARIANT SeparatesOnly
CHECK_DEADLOCK FALSE
