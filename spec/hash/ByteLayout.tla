----------------------------- MODULE ByteLayout -----------------------------
(* C15 — the byte-oriented hashers (BLAKE3 with 256- and 192-bit output, SHA3-256) return the
   underlying primitive applied to a documented BYTE LAYOUT of their arguments.

   The specification is denotational: `Layout(case)` is the byte string handed to the primitive,
   and the expected digest is the TERM  Trunc(Prim(layout), out)  — the primitive is a free
   constructor here (mechanism C of DESIGN.md); the harness evaluates the term by calling the
   `blake3` / `sha3` crates directly and compares with what winterfell's hasher returned.

       hash(b)                = b
       merge(d1, d2)          = d1 \o d2
       merge_many(<<d..>>)    = d1 \o d2 \o ...
       merge_with_int(d, n)   = d \o LE64(n)
       hash_elements(<<e..>>) = concatenation, element by element and coordinate by coordinate
                                (coefficient of x^0 first), of the canonical little-endian
                                encoding (ELEMENT_BYTES wide) of every base-field coordinate
       output                 = first 24 bytes of the primitive's 32 for the 192-bit variant

   ELEMENT VALUES, NOT REPRESENTATIONS.  An element argument is given to the harness as a RECIPE —
   a short expression over constructor values, e.g. <<"sub", a, b>> = new(a) - new(b) — that the
   harness evaluates with the real field operations; recipes are chosen so that the real types end
   up in every internal representation class (62-bit field: stored word in [M, 2M); 64-bit field:
   non-canonical results of mul_small / double; toy fields with a redundant representation).  The
   specification knows a recipe only through its VALUE, computed here by exact modular arithmetic
   over BigNat.  Any dependence of hash_elements on the representation is therefore a mismatch.

   Every case is an initial state; the invariant `Emit` (always TRUE) prints it with its expected
   term; `WellFormed` is the design-level sanity check of the layout definition itself. *)
EXTENDS Integers, Sequences, TLC, Bytes, BigNat, Json

CONSTANTS Hashers,      \* subset of {"b256", "b192", "sha3"}
          ByteLens,     \* lengths of the argument of hash(bytes)
          Kinds,        \* content kinds of byte strings / digests: subset of {"idx", "mix", "ff"}
          MaxDigests,   \* merge_many takes 0..MaxDigests digests
          Ints,         \* the u64 arguments of merge_with_int, as 8-byte little-endian arrays
          Fields,       \* subset of {"f64", "f62", "f128", "t257", "t257r", "t40961r"}
          MaxElems,     \* hash_elements takes 0..MaxElems elements
          LongElems,    \* ... and these longer element counts (lists crossing 1024 / 2048 serialised bytes)
          Sels          \* set of <<start, stride>>: which pool entries become the coordinates

VARIABLE case
vars == <<case>>

(***************************************************************************)
(* Hashers                                                                 *)
(***************************************************************************)
Prim(h)   == IF h = "sha3" THEN "sha3_256" ELSE "blake3"
OutLen(h) == IF h = "b192" THEN 24 ELSE 32      \* also the digest size

(***************************************************************************)
(* Fields: modulus (little-endian bytes), element width, extension degrees *)
(***************************************************************************)
Modulus(f) ==
  CASE f = "f64"     -> <<1, 0, 0, 0, 255, 255, 255, 255>>                       \* 2^64 - 2^32 + 1
    [] f = "f62"     -> <<1, 0, 0, 0, 128, 200, 255, 63>>                        \* 2^62 - 111 * 2^39 + 1
    [] f = "f128"    -> <<1, 0, 0, 0, 0, 211, 255, 255, 255, 255, 255, 255, 255, 255, 255, 255>>
                                                                                  \* 2^128 - 45 * 2^40 + 1
    [] f = "t257"    -> <<1, 1>>
    [] f = "t257r"   -> <<1, 1>>
    [] f = "t40961r" -> <<1, 160>>
Width(f) == CASE f \in {"f64", "f62"} -> 8 [] f = "f128" -> 16 [] OTHER -> 4
Degrees(f) == IF f = "f128" THEN {1, 2} ELSE {1, 2, 3}    \* no cubic extension of the 128-bit field
IsToy(f) == f \in {"t257", "t257r", "t40961r"}
Redundant(f) == f \in {"t257r", "t40961r"}

(***************************************************************************)
(* Recipes and their values                                                *)
(***************************************************************************)
\* the value (normalised BigNat) of a recipe over field f — exact modular arithmetic
RECURSIVE Doubled(_, _, _)
Doubled(a, k, p) == IF k = 0 THEN a ELSE Doubled(ModAdd(a, a, p), k - 1, p)

Value(f, r) ==
  LET p == Modulus(f) IN
  CASE r[1] = "new"    -> Trim(r[2])                        \* E::new(a), a < p
    [] r[1] = "neg"    -> ModNeg(Trim(r[2]), p)             \* -new(a)
    [] r[1] = "sub"    -> ModSub(Trim(r[2]), Trim(r[3]), p) \* new(a) - new(b)
    [] r[1] = "add"    -> ModAdd(Trim(r[2]), Trim(r[3]), p) \* new(a) + new(b)
    [] r[1] = "addneg" -> BZero                             \* new(a) + (-new(a))
    [] r[1] = "dbl"    -> Doubled(Trim(r[2]), r[3], p)      \* new(a).double() k times
    [] r[1] = "muls"   -> BMod(BMul(Trim(r[2]), BN(r[3])), p) \* new(a).mul_small(c)   (64-bit field only)
    [] r[1] = "mul"    -> BModMul(Trim(r[2]), Trim(r[3]), p)  \* new(a) * new(b)
    [] r[1] = "raw"    -> Trim(r[2])                        \* toy field: value a stored as a + hi * P

\* canonical encoding of a base-field value: little-endian, ELEMENT_BYTES wide
Enc(f, v) == PadTo(v, Width(f))

(* constructor values used by the pools *)
Pm(f, k)  == BSub(Modulus(f), BN(k))                        \* p - k
Mix(f, k) == [i \in 1..Width(f) |-> IF i = Width(f) THEN (k * 7) % 32 ELSE (i * k * 29 + 3 + k) % 256]
                                                            \* top byte < 32: below every big modulus
O(f, v)   == PadTo(v, Width(f))                             \* operands are written ELEMENT_BYTES wide

BigPool(f) ==
  << <<"new", O(f, BN(0))>>,              <<"new", O(f, BN(1))>>,
     <<"new", O(f, Pm(f, 1))>>,           <<"new", Mix(f, 1)>>,
     <<"neg", O(f, BN(0))>>,              <<"neg", O(f, BN(1))>>,
     <<"neg", O(f, Pm(f, 1))>>,           <<"neg", Mix(f, 2)>>,
     <<"sub", O(f, BN(0)), O(f, BN(1))>>, <<"sub", O(f, BN(1)), O(f, BN(1))>>,
     <<"sub", Mix(f, 1), Mix(f, 2)>>,     <<"sub", Mix(f, 2), Mix(f, 1)>>,
     <<"sub", O(f, BN(0)), O(f, Pm(f, 1))>>, <<"sub", Mix(f, 3), O(f, Pm(f, 2))>>,
     <<"add", O(f, Pm(f, 1)), O(f, BN(1))>>, <<"add", O(f, Pm(f, 1)), O(f, Pm(f, 1))>>,
     <<"add", Mix(f, 1), Mix(f, 2)>>,     <<"add", Mix(f, 4), O(f, Pm(f, 3))>>,
     <<"addneg", O(f, BN(1))>>,           <<"addneg", Mix(f, 3)>>,
     <<"dbl", Mix(f, 1), 1>>,             <<"dbl", O(f, Pm(f, 1)), 1>>,
     <<"mul", Mix(f, 1), Mix(f, 2)>>,     <<"mul", O(f, Pm(f, 1)), O(f, Pm(f, 1))>>,
     <<"mul", Mix(f, 3), O(f, BPow2(32))>>,
     <<"new", O(f, BSub(BPow2(32), BN(1)))>>, <<"neg", O(f, BPow2(32))>> >>

\* The 64-bit field keeps Montgomery words below p except after mul_small / double on particular
\* operands; these constructor values make the real code produce such words (the harness reports the
\* class it observed, the specification only knows the values).
F64Extra ==
  << <<"muls", <<9, 33, 132, 16, 222, 123, 239, 189>>, 31>>,       \* Montgomery word 0x1084210842108419
     <<"dbl",  <<1, 0, 0, 128, 0, 0, 0, 128>>, 1>>,                \* 2^63 + 2^31 + 1: Montgomery word 2^63 - 1
     <<"muls", Mix("f64", 1), 3>>,
     <<"muls", O("f64", Pm("f64", 1)), 2147483647>>,
     <<"muls", O("f64", BN(1)), 2147483647>>,
     <<"muls", <<9, 33, 132, 16, 222, 123, 239, 189>>, 1>>,
     <<"dbl",  Mix("f64", 5), 1>> >>

\* the 62-bit field allows several doublings in the lazy range [0, 2M)
F62Extra ==
  << <<"dbl", Mix("f62", 1), 3>>, <<"dbl", O("f62", Pm("f62", 1)), 5>>, <<"dbl", Mix("f62", 4), 2>> >>

T(v) == O("t257", BN(v))       \* toy operands: 4 bytes
ToyPool(f) ==
  LET P == FromLE(Modulus(f)) IN
  << <<"new", T(0)>>, <<"new", T(1)>>, <<"new", T(2)>>, <<"new", T(P - 1)>>, <<"new", T(P - 2)>>,
     <<"new", T(100)>>, <<"new", T(255)>>, <<"new", T(256)>>,
     <<"neg", T(0)>>, <<"neg", T(1)>>, <<"neg", T(2)>>, <<"neg", T(P - 1)>>,
     <<"sub", T(0), T(1)>>, <<"sub", T(5), T(5)>>, <<"sub", T(7), T(200)>>, <<"sub", T(200), T(7)>>,
     <<"add", T(P - 1), T(1)>>, <<"add", T(P - 1), T(P - 1)>>, <<"add", T(100), T(101)>>,
     <<"addneg", T(1)>>, <<"addneg", T(2)>>,
     <<"dbl", T(77), 1>>, <<"dbl", T(P - 1), 3>>,
     <<"mul", T(16), T(16)>>, <<"mul", T(P - 1), T(P - 1)>>, <<"mul", T(3), T(86)>> >>
\* redundant toy fields: the same value in both stored forms (v and v + P), chosen explicitly
RawPool(f) ==
  LET P == FromLE(Modulus(f)) IN
  << <<"raw", T(0), 0>>, <<"raw", T(0), 1>>, <<"raw", T(1), 0>>, <<"raw", T(1), 1>>,
     <<"raw", T(P - 1), 0>>, <<"raw", T(P - 1), 1>>, <<"raw", T(2), 1>>, <<"raw", T(255), 0>>,
     <<"raw", T(255), 1>>, <<"raw", T(256), 0>>, <<"raw", T(256), 1>>, <<"raw", T(100), 1>> >>

Pool(f) ==
  CASE f = "f64"   -> BigPool(f) \o F64Extra
    [] f = "f62"   -> BigPool(f) \o F62Extra
    [] f = "f128"  -> BigPool(f)
    [] f = "t257"  -> ToyPool(f)
    [] OTHER       -> ToyPool(f) \o RawPool(f)

AllFields == {"f64", "f62", "f128", "t257", "t257r", "t40961r"}
\* evaluated once by TLC (constant-level definitions)
PoolC   == [f \in AllFields |-> Pool(f)]
PoolVal == [f \in AllFields |-> [i \in 1..Len(PoolC[f]) |-> Value(f, PoolC[f][i])]]

(***************************************************************************)
(* Arguments of a case                                                     *)
(***************************************************************************)
ByteAt(kind, salt, i) == CASE kind = "idx" -> (i + salt) % 256
                           [] kind = "mix" -> (i * 37 + salt * 101 + 91) % 256
                           [] kind = "ff"  -> 255
MkBytes(kind, salt, n) == [i \in 1..n |-> ByteAt(kind, salt, i)]
\* the k-th digest argument: position-valued and different for every k
DigestArg(h, kind, k) == MkBytes(kind, 16 * k, OutLen(h))
DigestArgs(h, kind, n) == [k \in 1..n |-> DigestArg(h, kind, k)]

\* which pool entry becomes coordinate number j (0-based, counted through the whole element list)
PoolIdx(f, sel, j) == ((sel[1] + j * sel[2]) % Len(PoolC[f])) + 1
ElemRecipes(f, deg, n, sel) ==
  [e \in 1..n |-> [c \in 1..deg |-> PoolC[f][PoolIdx(f, sel, (e - 1) * deg + (c - 1))]]]
ElemValues(f, deg, n, sel) ==
  [e \in 1..n |-> [c \in 1..deg |-> PoolVal[f][PoolIdx(f, sel, (e - 1) * deg + (c - 1))]]]

(***************************************************************************)
(* THE LAYOUT                                                              *)
(***************************************************************************)
LayoutHash(b)            == b
LayoutMerge(d1, d2)      == d1 \o d2
LayoutMergeMany(ds)      == Concat(ds)
LayoutMergeWithInt(d, n) == d \o n                       \* n: the 8 little-endian bytes of the u64
LayoutElements(f, vals)  == Concat([e \in 1..Len(vals) |->
                                      Concat([c \in 1..Len(vals[e]) |-> Enc(f, vals[e][c])])])

Expected(h, layout) == [prim |-> Prim(h), bytes |-> layout, out |-> OutLen(h)]

(***************************************************************************)
(* Cases (one initial state each)                                          *)
(***************************************************************************)
Case(op, h, f, deg, n, kind, sel, int) ==
  [op |-> op, h |-> h, f |-> f, deg |-> deg, n |-> n, kind |-> kind, sel |-> sel, int |-> int]

NoSel == <<0, 0>>
Init ==
  \/ \E h \in Hashers, n \in ByteLens, k \in Kinds :
        case = Case("hash", h, "-", 0, n, k, NoSel, <<>>)
  \/ \E h \in Hashers, k \in Kinds :
        case = Case("merge", h, "-", 0, 2, k, NoSel, <<>>)
  \/ \E h \in Hashers, n \in 0..MaxDigests, k \in Kinds :
        case = Case("merge_many", h, "-", 0, n, k, NoSel, <<>>)
  \/ \E h \in Hashers, k \in Kinds, i \in Ints :
        case = Case("merge_with_int", h, "-", 0, 1, k, NoSel, i)
  \/ \E h \in Hashers, f \in Fields, n \in 0..MaxElems, s \in Sels :
        \E d \in Degrees(f) : case = Case("hash_elements", h, f, d, n, "-", s, <<>>)
  \/ \E h \in Hashers, f \in Fields, n \in LongElems :
        \E d \in Degrees(f) : case = Case("hash_elements", h, f, d, n, "-", <<3, 7>>, <<>>)

Next == UNCHANGED vars
Spec == Init /\ [][Next]_vars

(***************************************************************************)
(* Scenario = arguments + expected term                                    *)
(***************************************************************************)
NoArgs == [bytes |-> <<>>, ds |-> <<>>, int |-> <<>>, elems |-> <<>>]

Args(c) ==
  CASE c.op = "hash"           -> [NoArgs EXCEPT !.bytes = MkBytes(c.kind, 0, c.n)]
    [] c.op = "merge"          -> [NoArgs EXCEPT !.ds = DigestArgs(c.h, c.kind, 2)]
    [] c.op = "merge_many"     -> [NoArgs EXCEPT !.ds = DigestArgs(c.h, c.kind, c.n)]
    [] c.op = "merge_with_int" -> [NoArgs EXCEPT !.ds = DigestArgs(c.h, c.kind, 1), !.int = c.int]
    [] c.op = "hash_elements"  -> [NoArgs EXCEPT !.elems = ElemRecipes(c.f, c.deg, c.n, c.sel)]

Layout(c) ==
  LET a == Args(c) IN
  CASE c.op = "hash"           -> LayoutHash(a.bytes)
    [] c.op = "merge"          -> LayoutMerge(a.ds[1], a.ds[2])
    [] c.op = "merge_many"     -> LayoutMergeMany(a.ds)
    [] c.op = "merge_with_int" -> LayoutMergeWithInt(a.ds[1], a.int)
    [] c.op = "hash_elements"  -> LayoutElements(c.f, ElemValues(c.f, c.deg, c.n, c.sel))

Scenario(c) ==
  LET a == Args(c) IN
  [op |-> c.op, h |-> c.h, f |-> c.f, deg |-> c.deg,
   bytes |-> a.bytes, ds |-> a.ds, int |-> a.int, elems |-> a.elems,
   exp |-> Expected(c.h, Layout(c))]

Emit == PrintT(<<"REPLAY", ToJson(Scenario(case))>>)

(***************************************************************************)
(* Design-level sanity of the definitions (checked by TLC on every case)   *)
(***************************************************************************)
ExpectedLen(c) ==
  CASE c.op = "hash"           -> c.n
    [] c.op = "merge"          -> 2 * OutLen(c.h)
    [] c.op = "merge_many"     -> c.n * OutLen(c.h)
    [] c.op = "merge_with_int" -> OutLen(c.h) + 8
    [] c.op = "hash_elements"  -> c.n * c.deg * Width(c.f)

WellFormed ==
  /\ IsBytes(Layout(case))
  /\ Len(Layout(case)) = ExpectedLen(case)
  \* every pool value is a canonical field element, so its encoding is THE canonical encoding
  /\ case.op = "hash_elements" =>
        \A i \in 1..Len(PoolC[case.f]) :
           /\ BLess(PoolVal[case.f][i], Modulus(case.f))
           /\ Len(PoolVal[case.f][i]) <= Width(case.f)
  \* merge is merge_many of two digests, and appending to the argument list appends to the layout
  /\ case.op = "merge" =>
        Layout(case) = LayoutMergeMany(DigestArgs(case.h, case.kind, 2))
  /\ (case.op = "merge_many" /\ case.n > 0) =>
        Layout(case) = LayoutMergeMany(DigestArgs(case.h, case.kind, case.n - 1))
                         \o DigestArg(case.h, case.kind, case.n)
=============================================================================
