\* C17 thorough: hash over 0..340 bytes (6 blocks of the 8-word rate, 12 of the 4-word rate), element
\* runs up to 48 (+ 3 leading, 17 trailing zeros): 6 blocks and beyond.
SPECIFICATION Spec
CONSTANTS MaxBytes = 340  MaxRun = 48  MaxLead = 3  MaxTrail = 17
  AllHashers <- HashersAll  ByteExt <- ExtThorough
INVARIANT Separates
CHECK_DEADLOCK FALSE
