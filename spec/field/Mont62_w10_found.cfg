SPECIFICATION Spec
CONSTANTS Wd = 10  P = 193  FixInv = FALSE
INVARIANT Report
CHECK_DEADLOCK FALSE
