SPECIFICATION CSpec
INVARIANT Progress Conclusion
POSTCONDITION Accepted
CHECK_DEADLOCK FALSE
