INIT Init
NEXT Next
CONSTANT Full = TRUE
INVARIANT Emit
CHECK_DEADLOCK FALSE
