SPECIFICATION Spec
CONSTANTS Wd = 8  P = 61  FixInv = FALSE
INVARIANT Report
CHECK_DEADLOCK FALSE
