SPECIFICATION Spec
CONSTANTS Wd = 10  P = 193  FixInv = TRUE
INVARIANT Correct
CHECK_DEADLOCK FALSE
