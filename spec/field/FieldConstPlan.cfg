\* prints the exponents the recorder must raise the real GENERATOR / discriminants to
INIT PInit
NEXT PNext
CHECK_DEADLOCK FALSE
