----------------------------- MODULE Goldilocks -----------------------------
(* Mechanism E (design level): word-size-scaled transcription of math/src/field/f64/mod.rs.

   The 64-bit field is p = 2^(2K) - 2^K + 1 with K = 32, stored in Montgomery form (radix 2^(2K)) in
   one word of W = 2K bits; every routine of the module is word-size parametric.  This module
   transcribes them over the parameter K: mont_red_cst, mont_to_int (as_int), new, add, sub, neg, mul,
   double, mul_small, exp (constant-time select), inv (= x^(p-2) by square/multiply), equals.
   K = 2: p = 13 (4-bit words); K = 4: p = 241 (8-bit words) — both prime, checked below.

   TLC enumerates EVERY pair (x, y) of internal values in the documented range [0, p) (the values
   produced by the public constructors `new` and `from_mont`) as an initial state and checks, for every
   public operation: the canonical value of the result is the exact result on the canonical values;
   == holds exactly for equal canonical values; the result stays in the documented range [0, p).
   Range preservation makes [0, p) closed under the operations, so these are all reachable
   representations (invariant ClosedOk).

   FixDouble / FixMulSmall = FALSE transcribe the routines as found in the pinned tree; TRUE the
   repaired ones (DESIGN §8 items 1, 2b).  With the as-found routines `Report` prints every violating
   (operation, operands) as a <<"FINDING", json>> line instead of stopping at the first: these are DESIGN
   findings; the check lifts them to 64-bit operands and confirms them on the real field through
   TraceFieldOps before they count. *)
EXTENDS Integers, Sequences, TLC, Json

CONSTANTS K, FixDouble, FixMulSmall

W   == 2 * K
B   == 2 ^ W              \* word modulus (2^64)
H   == 2 ^ K              \* half word (2^32)
M   == B - H + 1          \* the prime
Eps == H - 1              \* 2^W mod M  (0xFFFFFFFF)

ASSUME K \in {2, 4}
ASSUME \A d \in 2..(M - 1) : d * d > M \/ M % d # 0        \* M is prime

\* ---- machine-word helpers ----------------------------------------------------------------------
OvSub(a, b) == [r |-> (a - b + B) % B, c |-> IF a < b THEN 1 ELSE 0]     \* u64::overflowing_sub
OvAdd(a, b) == [r |-> (a + b) % B, c |-> IF a + b >= B THEN 1 ELSE 0]    \* u64::overflowing_add
WSub(a, b)  == (a - b + 4 * B) % B                                        \* wrapping_sub (b < 4B)

\* mont_red_cst(x: u128) -> u64
MontRed(x) ==
  LET xl == x % B
      xh == x \div B
      ae == OvAdd(xl, (xl * H) % B)                    \* xl.overflowing_add(xl << 32)
      b  == WSub(WSub(ae.r, ae.r \div H), ae.c)        \* a.wrapping_sub(a >> 32).wrapping_sub(e)
      rc == OvSub(xh, b)
  IN WSub(rc.r, Eps * rc.c)                            \* r.wrapping_sub(0u32.wrapping_sub(c) as u64)

R2 == (B * B) % M                                      \* 2^128 mod M
New(v)   == MontRed(v * R2)
ToInt(x) == MontRed(x)                                  \* mont_to_int: mont_red_cst with xh = 0
Zero == New(0)
One  == New(1)

Add(a, b) == LET t == OvSub(a, WSub(M, b)) IN WSub(t.r, Eps * t.c)   \* a - (M - b) with fix-up
Sub(a, b) == LET t == OvSub(a, b) IN WSub(t.r, Eps * t.c)
Neg(a)    == Sub(Zero, a)
Mul(a, b) == MontRed(a * b)
Square(a) == Mul(a, a)

DoubleFound(a) == LET ret == 2 * a IN WSub(ret % B, M * (ret \div B))
Double(a) == IF FixDouble THEN Add(a, a) ELSE DoubleFound(a)

MulSmallFound(a, k) ==
  LET s   == a * k
      shi == s \div B
      slo == s % B
      z   == shi * H - shi                              \* (s_hi << 32) - s_hi, no overflow: s_hi < 2^32
      t   == OvAdd(slo, z)
  IN (t.r + Eps * t.c) % B
MulSmall(a, k) == LET r == MulSmallFound(a, k) IN
                  IF FixMulSmall /\ r >= M THEN r - M ELSE r

Equals(a, b) == a = b                                   \* raw-limb comparison

\* exp: W iterations from the top bit, constant-time select
RECURSIVE ExpLoop(_, _, _, _)
ExpLoop(base, power, i, r) ==
  IF i < 0 THEN r
  ELSE LET r2 == Square(r)
           b  == Mul(r2, base)
       IN ExpLoop(base, power, i - 1, IF (power \div (2 ^ i)) % 2 = 1 THEN b ELSE r2)
Exp(a, e) == ExpLoop(a, e, W - 1, One)
Inv(a) == Exp(a, M - 2)                                  \* the fixed addition chain computes a^(M-2)
Div(a, b) == Mul(a, Inv(b))

\* ---- meaning of a representation -----------------------------------------------------------------
Rinv == CHOOSE r \in 0..(M - 1) : (r * (B % M)) % M = 1
Val(x) == (x * Rinv) % M                                \* x = Val(x) * 2^W (mod M)

\* ---- the state space: all pairs of documented representations ---------------------------------------
VARIABLES x, y
vars == <<x, y>>
Reps == 0..(M - 1)
Smalls == 0..(H - 1)                                     \* mul_small's u32 argument
Exps == {0, 1, 2, 3, M - 2, M - 1, M, B - 1}

Init == x \in Reps /\ y \in Reps
Results == {Add(x, y), Sub(x, y), Mul(x, y), Neg(x), Double(x), Square(x)}
           \cup {MulSmall(x, k) : k \in Smalls}
\* every pair is an initial state; ClosedOk shows no operation leaves the range, so there is nothing
\* further to explore
Next == UNCHANGED vars
Spec == Init /\ [][Next]_vars

\* exactness of one operation instance: [op, ok]
Check(op, r, expect) == [op |-> op, r |-> r, ok |-> (r < M /\ Val(r) = expect)]
Binary == << Check("add", Add(x, y), (Val(x) + Val(y)) % M),
             Check("sub", Sub(x, y), (Val(x) - Val(y) + M) % M),
             Check("mul", Mul(x, y), (Val(x) * Val(y)) % M) >>
Unary  == << Check("neg", Neg(x), (M - Val(x)) % M),
             Check("double", Double(x), (2 * Val(x)) % M),
             Check("square", Square(x), (Val(x) * Val(x)) % M),
             Check("new", New(x), x % M),
             Check("as_int", New(ToInt(x)), Val(x)) >>

PowMod(a, e) == LET RECURSIVE P(_, _)
                    P(acc, i) == IF i < 0 THEN acc
                                 ELSE LET s == (acc * acc) % M IN
                                      P(IF (e \div (2 ^ i)) % 2 = 1 THEN (s * a) % M ELSE s, i - 1)
                IN P(1, W - 1)

\* the property at one state
ExactBinary == \A i \in 1..Len(Binary) : Binary[i].ok
\* unary routines do not depend on y: checked on the diagonal only (|Reps| instead of |Reps|^2 states)
ExactUnary  == x = y => \A i \in 1..Len(Unary) : Unary[i].ok
AsIntOk     == x = y => ToInt(x) = Val(x)
EqOk        == Equals(x, y) <=> (Val(x) = Val(y))
MulSmallOk  == x = y => \A k \in Smalls : LET r == MulSmall(x, k) IN r < M /\ Val(r) = (Val(x) * k) % M
\* exp / inv / div only on the diagonal (they do not depend on y): |Reps| states instead of |Reps|^2
ExpOk       == x = y => /\ \A e \in Exps : LET r == Exp(x, e) IN r < M /\ Val(r) = PowMod(Val(x), e)
                        /\ LET r == Inv(x) IN r < M /\ (Val(r) * Val(x)) % M = (IF Val(x) = 0 THEN 0 ELSE 1)
ClosedOk    == \A r \in Results : r \in Reps

Correct == ExactBinary /\ ExactUnary /\ AsIntOk /\ EqOk /\ MulSmallOk /\ ExpOk /\ ClosedOk

\* as-found configuration: print every root-cause violation (operands in the documented range)
Finding(op, k, r, expect) == PrintT(<<"FINDING", ToJson([K |-> K, op |-> op, x |-> x, y |-> y, k |-> k, r |-> r,
                                                        val |-> Val(r), expect |-> expect])>>)
Report == (x \in Reps /\ y \in Reps) =>
  /\ \A i \in 1..Len(Binary) : Binary[i].ok \/ Finding(Binary[i].op, 0, Binary[i].r, 0)
  /\ (x = y => \A i \in 1..Len(Unary) : Unary[i].ok \/ Finding(Unary[i].op, 0, Unary[i].r, 0))
  /\ (x = y => \A k \in Smalls : LET r == MulSmall(x, k) IN
                  (r < M /\ Val(r) = (Val(x) * k) % M) \/ Finding("mul_small", k, r, (Val(x) * k) % M))
  /\ (EqOk \/ Finding("eq", 0, 0, 0))

(* ---- representation / carry classes for lifting ---------------------------------------------------
   For boundary operands the model reports, per routine, the carry / borrow flags taken; the check lifts
   a few representatives of every (routine, flags) class to 64-bit operands (nibble n of the K = 4 word
   |-> 32-bit limb: 0 |-> 0, 1 |-> 1, 0xF |-> 2^32-1, 0xE |-> 2^32-2, 8 |-> 2^31, 7 |-> 2^31-1, others
   |-> seeded value in the same sixteenth) and the recorder replays them on the real field. *)
Boundary == {v \in Reps : \/ v \in {0, 1, 2, H - 1, H, H + 1, B \div 2 - 1, B \div 2, B \div 2 + 1}
                          \/ v \in {(M - 1) \div 2, (M + 1) \div 2, M - H, M - H + 1, M - 2, M - 1, Eps * H, Eps * H - 1}
                          \/ v % H \in {0, H - 1} /\ (v \div H) % 5 = 2}
RedFlags(v) == LET xl == v % B  ae == OvAdd(xl, (xl * H) % B)
                   b == WSub(WSub(ae.r, ae.r \div H), ae.c) IN <<ae.c, OvSub(v \div B, b).c>>
Class(op, fl) == PrintT(<<"CLASS", ToJson([K |-> K, op |-> op, x |-> x, y |-> y, fl |-> fl])>>)
ClassReport == (x \in Boundary /\ y \in Boundary) =>
  /\ Class("add", <<OvSub(x, WSub(M, y)).c>>)
  /\ Class("sub", <<OvSub(x, y).c>>)
  /\ Class("mul", RedFlags(x * y))
  /\ (x = y => /\ Class("double", <<OvSub(x, WSub(M, x)).c>>)
               /\ Class("square", RedFlags(x * x))
               /\ Class("neg", <<OvSub(Zero, x).c>>)
               /\ Class("as_int", RedFlags(x)))
  /\ (y < H => LET s == x * y  t == OvAdd(s % B, (s \div B) * H - (s \div B)) IN
               Class("mul_small", <<t.c, IF MulSmallFound(x, y) >= M THEN 1 ELSE 0>>))
=============================================================================
