\* repaired routines, p = 13: every operation exact on every pair of representations
SPECIFICATION Spec
CONSTANTS K = 2  FixDouble = TRUE  FixMulSmall = TRUE
INVARIANT Correct
CHECK_DEADLOCK FALSE
