INIT Init
NEXT Next
CONSTANT Full = FALSE
INVARIANT Emit
CHECK_DEADLOCK FALSE
