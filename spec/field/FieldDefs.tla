------------------------------ MODULE FieldDefs ------------------------------
(* The DEFINITION of winterfell's three prime fields and five extension fields, as documented
   (module docs and the doc comments of the ExtensibleField impls in math/src/field/*/mod.rs):

     f64   p = 2^64 - 2^32 + 1        quadratic  x^2 - x + 2     cubic  x^3 - x - 1
     f62   p = 2^62 - 111*2^39 + 1    quadratic  x^2 - x - 1     cubic  x^3 + 2x + 2
     f128  p = 2^128 - 45*2^40 + 1    quadratic  x^2 - x - 1     (no cubic extension)

   Numbers are little-endian base-256 digit sequences (BigNat).  An element of a degree-d extension is
   a sequence of d coordinates (coefficients of 1, x, .., x^(d-1)).  Everything here is exact integer
   arithmetic; products modulo p are never computed, only CHECKED through witnesses:
       c = (pos - neg) mod p   iff   c < p  and  pos = neg + c + q*p   or   pos + q*p = neg + c
   for some natural q (the hint) — the solution c is unique, so an untrusted hint can make a correct
   result look wrong but never a wrong result look right. *)
EXTENDS Integers, Sequences, BigNat

Fields == {"f64", "f62", "f128"}

Modulus(f) == CASE f = "f64"  -> <<1, 0, 0, 0, 255, 255, 255, 255>>
                [] f = "f62"  -> <<1, 0, 0, 0, 128, 200, 255, 63>>
                [] f = "f128" -> <<1, 0, 0, 0, 0, 211, 255, 255, 255, 255, 255, 255, 255, 255, 255, 255>>

\* the same moduli from their documented closed forms (ASSUMEd equal in TraceFieldOps / FieldConst)
ModulusClosedForm(f) ==
  CASE f = "f64"  -> BAdd(BSub(BPow2(64), BPow2(32)), BOne)
    [] f = "f62"  -> BAdd(BSub(BPow2(62), BMulInt(BPow2(39), 111)), BOne)
    [] f = "f128" -> BAdd(BSub(BPow2(128), BMulInt(BPow2(40), 45)), BOne)

ElementBytes(f) == IF f = "f128" THEN 16 ELSE 8

\* x^d = Red[1] + Red[2]*x + .. + Red[d]*x^(d-1)
Red(f, d) == CASE d = 1 -> <<>>
               [] f = "f64"  /\ d = 2 -> <<-2, 1>>
               [] f = "f64"  /\ d = 3 -> <<1, 1, 0>>
               [] f = "f62"  /\ d = 2 -> <<1, 1>>
               [] f = "f62"  /\ d = 3 -> <<-2, -2, 0>>
               [] f = "f128" /\ d = 2 -> <<1, 1>>

Supported(f, d) == f \in Fields /\ d \in 1..3 /\ ~(f = "f128" /\ d = 3)

(* eager small tuples (TLC evaluates <<..>> once; a function constructor would be re-evaluated at
   every application) *)
Tup(n, Op(_)) == CASE n = 0 -> <<>>
                   [] n = 1 -> <<Op(1)>>
                   [] n = 2 -> <<Op(1), Op(2)>>
                   [] n = 3 -> <<Op(1), Op(2), Op(3)>>
                   [] n = 4 -> <<Op(1), Op(2), Op(3), Op(4)>>
                   [] n = 5 -> <<Op(1), Op(2), Op(3), Op(4), Op(5)>>

\* coefficient vector (small integers) of x^k modulo the extension polynomial
RECURSIVE XPow(_, _, _)
XPow(red, d, k) ==
  IF k < d THEN [i \in 1..d |-> IF i = k + 1 THEN 1 ELSE 0]
  ELSE LET v == XPow(red, d, k - 1)
       IN [i \in 1..d |-> (IF i > 1 THEN v[i - 1] ELSE 0) + v[d] * red[i]]

RECURSIVE SumSeq(_)
SumSeq(s) == IF s = <<>> THEN <<>> ELSE BAdd(Head(s), SumSeq(Tail(s)))

Canon(x, p) == BLess(x, p)
CanonVec(v, d, p) == Len(v) = d /\ \A i \in 1..d : Canon(v[i], p)
VecEq(u, v) == Len(u) = Len(v) /\ \A i \in 1..Len(u) : BEq(u[i], v[i])
IsZeroVec(v) == \A i \in 1..Len(v) : BIsZero(v[i])
OneVec(d) == [i \in 1..d |-> IF i = 1 THEN <<1>> ELSE <<>>]
ZeroVec(d) == [i \in 1..d |-> <<>>]

(* r = a * b in F_p[x]/(f): polynomial identity over the integers, one hint [s, q] per output
   coordinate.  conv[k] = sum_{i+j=k} a_i b_j; coordinate i of the product is
   sum_k conv[k] * XPow(k)[i], split into its positive and negative part. *)
RECURSIVE ConvSum(_, _, _, _, _)
ConvSum(a, b, k, i, hi) == IF i > hi THEN <<>> ELSE BAdd(BMul(a[i], b[k + 1 - i]), ConvSum(a, b, k, i + 1, hi))
\* coefficient of x^(k-1) in the integer polynomial product a(x)*b(x), k = 1..2d-1
ConvK(a, b, d, k) == ConvSum(a, b, k, Max2(1, k + 1 - d), Min2(d, k))

ExtMulOk(f, d, a, b, r, h) ==
  LET p    == Modulus(f)
      red  == Red(f, d)
      n    == 2 * d - 1
      conv == Tup(n, LAMBDA k : ConvK(a, b, d, k))
      tab  == Tup(n, LAMBDA k : XPow(red, d, k - 1))
      Pos(i) == SumSeq(Tup(n, LAMBDA k : IF tab[k][i] > 0 THEN BMulInt(conv[k], tab[k][i]) ELSE <<>>))
      Neg(i) == SumSeq(Tup(n, LAMBDA k : IF tab[k][i] < 0 THEN BMulInt(conv[k], -tab[k][i]) ELSE <<>>))
  IN /\ Len(a) = d /\ Len(b) = d /\ Len(r) = d /\ Len(h) = d
     /\ \A i \in 1..d :
          LET qp == BMul(h[i].q, p) IN
          /\ Canon(r[i], p)
          /\ IF h[i].s = 0 THEN BEq(Pos(i), BAdd(BAdd(Neg(i), r[i]), qp))
                           ELSE BEq(BAdd(Pos(i), qp), BAdd(Neg(i), r[i]))

(* exponent bits *)
BitLen(e) == LET t == Trim(e) IN IF t = <<>> THEN 0 ELSE 8 * (Len(t) - 1) + (8 - LZ8(t[Len(t)]))
Bit(e, i) == IF (i \div 8) + 1 > Len(e) THEN 0 ELSE (e[(i \div 8) + 1] \div (2 ^ (i % 8))) % 2

(* r = a^e by the left-to-right binary chain: acc starts as a (top bit), and for every further bit j
   (from BitLen-2 down to 0) link chain[BitLen-1-j] gives s = acc^2 with hints hs and, when the bit
   is 1, m = s*a with hints hm.  a^0 = 1 (also for a = 0). *)
ExpChainOk(f, d, a, e, r, chain) ==
  LET n == BitLen(e) IN
  IF n = 0 THEN VecEq(r, OneVec(d))
  ELSE /\ Len(chain) = n - 1
       /\ LET RECURSIVE Walk(_, _)
              Walk(acc, j) ==
                IF j < 0 THEN VecEq(acc, r)
                ELSE LET lk == chain[n - 1 - j] IN
                     /\ ExtMulOk(f, d, acc, acc, lk.s, lk.hs)
                     /\ IF Bit(e, j) = 1
                          THEN ExtMulOk(f, d, lk.s, a, lk.m, lk.hm) /\ Walk(lk.m, j - 1)
                          ELSE Walk(lk.s, j - 1)
          IN Walk(a, n - 2)

(* Images of the basis 1, x, x^2 under the Frobenius map y |-> y^p.  Committed data; certified in
   every C10/C11 run by `frobcert` events (chains for x^p and (x^2)^p).  Because y |-> y^p is additive
   and fixes F_p (p prime), (sum a_k x^k)^p = sum a_k (x^k)^p. *)
FrobImg(f, d) ==
  CASE d = 1 -> << <<<<1>>>> >>
    [] f = "f64"  /\ d = 2 -> << <<<<1>>, <<>>>>, <<<<1>>, <<0,0,0,0,255,255,255,255>>>> >>
    [] f = "f62"  /\ d = 2 -> << <<<<1>>, <<>>>>, <<<<1>>, <<0,0,0,0,128,200,255,63>>>> >>
    [] f = "f128" /\ d = 2 -> << <<<<1>>, <<>>>>, <<<<1>>, <<0,0,0,0,0,211,255,255,255,255,255,255,255,255,255,255>>>> >>
    [] f = "f64"  /\ d = 3 -> << <<<<1>>, <<>>, <<>>>>,
                                 <<<<61,55,198,244,255,141,82,147>>, <<72,252,189,166,128,191,121,139>>, <<38,173,214,144,254,42,4,163>>>>,
                                 <<<<220,82,41,111,0,213,251,92>>, <<159,27,99,122,255,70,169,201>>, <<184,3,66,89,126,64,134,116>>>> >>
    [] f = "f62"  /\ d = 3 -> << <<<<1>>, <<>>, <<>>>>,
                                 <<<<221,229,21,203,77,221,156,28>>, <<104,93,135,123,152,72,207,39>>, <<102,108,80,88,26,152,117,37>>>>,
                                 <<<<201,216,160,176,180,103,235,10>>, <<239,242,138,229,230,82,78,46>>, <<152,162,120,132,231,127,48,24>>>> >>

\* r = a^p through the basis images: r_i = sum_k a_k * Img[k][i]  (mod p), hint q per coordinate
FrobLinearOk(f, d, a, r, h) ==
  LET p == Modulus(f)  img == FrobImg(f, d) IN
  /\ Len(a) = d /\ Len(r) = d /\ Len(h) = d
  /\ \A i \in 1..d : IsDivMod(SumSeq(Tup(d, LAMBDA k : BMul(a[k], img[k][i]))), p, h[i].q, r[i])
=============================================================================
