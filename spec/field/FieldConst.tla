----------------------------- MODULE FieldConst -----------------------------
(* C11 (constants) — certificates for the field constants, validated by TLC over a trace RECORDED from
   the real field code (mechanism B + D).  The trace (environment variable TRACE) contains

     consts / econsts   the constants the code exposes: MODULUS, get_modulus_le_bytes(), MODULUS_BITS,
                        TWO_ADICITY, GENERATOR, TWO_ADIC_ROOT_OF_UNITY, ELEMENT_BYTES, ZERO, ONE, ...
     exp                GENERATOR.exp((p-1)/q) for every prime q | p-1 and GENERATOR.exp(p-1), and the
                        Euler-criterion powers D^((p-1)/2) of the quadratic discriminants — real calls,
                        each checked link by link through its square-and-multiply chain
     root               get_root_of_unity(n) and its n successive squares, for EVERY n <= TWO_ADICITY
     conj               conjugate() = Frobenius against x^p chains / the certified basis images
     frobcert, unit     (no call into winterfell) x^p and (x^2)^p modulo the documented extension
                        polynomial by chain, and a witness that x^p - x is invertible modulo it

   From the accepted events the final state must derive, per field (Certified):
     * the Lucas / Pratt conditions for p with witness GENERATOR: g^(p-1) = 1 and g^((p-1)/q) # 1 for
       every prime q of the committed factorisation of p-1 (FactorData: computed once with sympy,
       checked here: the product is p-1 and every factor is prime — below 2^15 by trial division,
       above by a recursive Pratt certificate evaluated hint-free with BigNat).  Hence p is prime AND
       GENERATOR generates the multiplicative group;
     * TWO_ADICITY = v2(p-1) computed from the modulus bytes;
     * for every n in 1..TWO_ADICITY: w = get_root_of_unity(n) satisfies w^(2^(n-1)) = p-1 and
       w^(2^n) = 1, i.e. w has exact order 2^n; TWO_ADIC_ROOT_OF_UNITY is the n = TWO_ADICITY one;
     * every extension polynomial f (degree 2 or 3) is irreducible: a polynomial of degree <= 3 is
       irreducible over F_p iff it has no root in F_p iff gcd(x^p - x, f) = 1 iff x^p - x is a unit
       modulo f (witness: its inverse); for the quadratics also Euler's criterion on the discriminant;
     * the Frobenius constants: conjugate(x) = x^p. *)
EXTENDS TraceFieldOps, FiniteSets

VARIABLE facts
cvars == <<l, k, acc, bad, facts>>

\* ---- documented constants ----------------------------------------------------------------------------
GeneratorOf(f)  == CASE f = "f64" -> <<7>> [] f = "f62" -> <<3>> [] f = "f128" -> <<3>>
TwoAdicityOf(f) == CASE f = "f64" -> 32 [] f = "f62" -> 39 [] f = "f128" -> 40
IsCanonicalOf(f) == IF f = "f128" THEN 1 ELSE 0
ExtSupported(f, d) == IF Supported(f, d) THEN 1 ELSE 0

\* v2(n) from the bytes of n (n # 0)
RECURSIVE V2(_)
V2(n) == IF n[1] = 0 THEN 8 + V2(Tail(n)) ELSE TZ8(n[1])
PMinus1(f) == BSub(Modulus(f), BOne)

(* p - 1 = prod q^e (sympy, committed).  Primes >= 2^15 carry a Pratt certificate in PrattData. *)
FactorData(f) ==
  CASE f = "f64"  -> << [q |-> BN(2), e |-> 32], [q |-> BN(3), e |-> 1], [q |-> BN(5), e |-> 1], [q |-> BN(17), e |-> 1],
                        [q |-> BN(257), e |-> 1], [q |-> BN(65537), e |-> 1] >>
    [] f = "f62"  -> << [q |-> BN(2), e |-> 39], [q |-> BN(13), e |-> 1], [q |-> BN(17), e |-> 1], [q |-> BN(37957), e |-> 1] >>
    [] f = "f128" -> << [q |-> BN(2), e |-> 40], [q |-> BN(29), e |-> 1], [q |-> BN(181), e |-> 1], [q |-> BN(286619), e |-> 1],
                        [q |-> BN(11394379), e |-> 1], [q |-> <<91, 90, 22, 52, 4>>, e |-> 1] >>       \* 18053749339 = 0x434165A5B

\* Pratt certificates of the primes >= 2^15 occurring above: n, witness g, factorisation fd of n-1
B18053749339 == <<91, 90, 22, 52, 4>>
PF(q, e) == [q |-> BN(q), e |-> e]
PrattData ==
  { [n |-> BN(65537),    g |-> BN(3),  fd |-> <<PF(2, 16)>>],
    [n |-> BN(37957),    g |-> BN(2),  fd |-> <<PF(2, 2), PF(3, 1), PF(3163, 1)>>],
    [n |-> BN(286619),   g |-> BN(2),  fd |-> <<PF(2, 1), PF(139, 1), PF(1031, 1)>>],
    [n |-> BN(11394379), g |-> BN(2),  fd |-> <<PF(2, 1), PF(3, 3), PF(211007, 1)>>],
    [n |-> BN(211007),   g |-> BN(5),  fd |-> <<PF(2, 1), PF(105503, 1)>>],
    [n |-> BN(105503),   g |-> BN(10), fd |-> <<PF(2, 1), PF(17, 1), PF(29, 1), PF(107, 1)>>],
    [n |-> B18053749339, g |-> BN(3),  fd |-> <<PF(2, 1), PF(3, 1), PF(157, 1), PF(19165339, 1)>>],
    [n |-> BN(19165339), g |-> BN(3),  fd |-> <<PF(2, 1), PF(3, 2), PF(19, 1), PF(56039, 1)>>],
    [n |-> BN(56039),    g |-> BN(7),  fd |-> <<PF(2, 1), PF(28019, 1)>>] }

\* ---- hint-free number theory for the small certificates ------------------------------------------------
SmallPrime(n) == n >= 2 /\ \A d \in 2..181 : d * d > n \/ n % d # 0            \* n < 2^15
RECURSIVE BPowMod(_, _, _, _, _)
BPowMod(base, a, e, n, i) ==   \* left-to-right; bits i-1..0 of e still to process
  IF i = 0 THEN a
  ELSE LET s == BModMul(a, a, n) IN
       BPowMod(base, IF Bit(e, i - 1) = 1 THEN BModMul(s, base, n) ELSE s, e, n, i - 1)
PowMod(a, e, n) == BPowMod(a, BOne, e, n, BitLen(e))

RECURSIVE BPowInt(_, _)
BPowInt(q, e) == IF e = 0 THEN BOne ELSE BMul(q, BPowInt(q, e - 1))
RECURSIVE ProdFactors(_, _)
ProdFactors(fd, i) == IF i > Len(fd) THEN BOne ELSE BMul(BPowInt(fd[i].q, fd[i].e), ProdFactors(fd, i + 1))
\* (prod fd) / fd[i].q
CofactorOf(fd, i) == ProdFactors([j \in 1..Len(fd) |-> IF j = i THEN [q |-> fd[j].q, e |-> fd[j].e - 1] ELSE fd[j]], 1)

\* Lucas / Pratt: n is prime if g^(n-1) = 1 (mod n) and g^((n-1)/q) # 1 for every prime q | n-1
RECURSIVE IsPrimeCert(_)
IsPrimeCert(n) ==
  IF FitsInt(n) /\ FromLE(n) < 32768 THEN SmallPrime(FromLE(n))
  ELSE \E c \in PrattData :
         /\ BEq(c.n, n)
         /\ BEq(ProdFactors(c.fd, 1), BSub(n, BOne))
         /\ BEq(PowMod(c.g, BSub(n, BOne), n), BOne)
         /\ \A i \in 1..Len(c.fd) : /\ IsPrimeCert(c.fd[i].q)
                                    /\ ~BEq(PowMod(c.g, CofactorOf(c.fd, i), n), BOne)

\* committed data is consistent: the factorisation multiplies to p-1 and its primes are primes
FactorDataOk(f) == /\ BEq(ProdFactors(FactorData(f), 1), PMinus1(f))
                   /\ \A i \in 1..Len(FactorData(f)) : IsPrimeCert(FactorData(f)[i].q)
                   /\ FactorData(f)[1].q = BN(2) /\ FactorData(f)[1].e = V2(PMinus1(f))

\* ---- C11 events -----------------------------------------------------------------------------------------
RECURSIVE SquaresOk(_, _, _, _, _)
SquaresOk(prev, sq, h, i, p) ==
  IF i > Len(sq) THEN TRUE
  ELSE IsModMul(prev, prev, sq[i], h[i].q, p) /\ SquaresOk(sq[i], sq, h, i + 1, p)

ExplainsC(e) ==
  LET f == e.f  p == Modulus(e.f)  op == e.op IN
  CASE op = "consts" ->
         /\ Returned(e) /\ f \in Fields
         /\ e.modulus_le = PadTo(Modulus(f), ElementBytes(f))        \* get_modulus_le_bytes(): exact bytes
         /\ BEq(e.modulus, Modulus(f))
         /\ e.bits = BitLen(Modulus(f))
         /\ e.two_adicity = V2(PMinus1(f)) /\ e.two_adicity = TwoAdicityOf(f)
         /\ BEq(e.generator, GeneratorOf(f))
         /\ Canon(e.root, p)
         /\ e.element_bytes = ElementBytes(f) /\ e.ext_degree = 1
         /\ BIsZero(e.zero) /\ BEq(e.one, BOne)
         /\ e.is_canonical = IsCanonicalOf(f)
         /\ e.ext2 = ExtSupported(f, 2) /\ e.ext3 = ExtSupported(f, 3)
    [] op = "econsts" ->
         /\ Returned(e) /\ Supported(f, e.d) /\ e.d > 1
         /\ e.element_bytes = e.d * ElementBytes(f) /\ e.ext_degree = e.d
         /\ VecEq(e.zero, ZeroVec(e.d)) /\ VecEq(e.one, OneVec(e.d))
         /\ e.is_canonical = IsCanonicalOf(f)
    [] op = "root" ->
         \* w = get_root_of_unity(n): sq[i] = w^(2^i); w^(2^(n-1)) = -1 and w^(2^n) = 1
         /\ Returned(e) /\ f \in Fields /\ e.n \in 1..TwoAdicityOf(f)
         /\ Canon(e.w, p) /\ Len(e.sq) = e.n /\ Len(e.h) = e.n
         /\ SquaresOk(e.w, e.sq, e.h, 1, p)
         /\ BEq(IF e.n = 1 THEN e.w ELSE e.sq[e.n - 1], PMinus1(f))
         /\ BEq(e.sq[e.n], BOne)
    [] op = "unit" ->
         \* (x^p - x) * w = 1 modulo the extension polynomial, x^p from the certified basis images
         /\ Supported(f, e.d) /\ e.d > 1 /\ CanonVec(e.w, e.d, p)
         /\ LET img == FrobImg(f, e.d)[2]
                g   == [i \in 1..e.d |-> IF i = 2 THEN ModSub(img[i], BOne, p) ELSE img[i]]
            IN ~IsZeroVec(g) /\ ExtMulOk(f, e.d, g, e.w, OneVec(e.d), e.h)
    [] OTHER -> Explains(e)

\* what an accepted event establishes
Norm(v) == [i \in 1..Len(v) |-> Trim(v[i])]
FactOf(e) ==
  CASE e.op = "exp"      -> <<"exp", e.f, e.d, Norm(e.a), Trim(e.e), Norm(e.r)>>
    [] e.op = "consts"   -> <<"consts", e.f, Trim(e.root)>>
    [] e.op = "econsts"  -> <<"econsts", e.f, e.d>>
    [] e.op = "root"     -> <<"root", e.f, e.n, Trim(e.w)>>
    [] e.op = "unit"     -> <<"unit", e.f, e.d>>
    [] e.op = "frobcert" -> <<"frobcert", e.f, e.d, e.k>>
    [] e.op = "conj"     -> <<"conj", e.f, e.d, IF Has(e, "chain") THEN "chain" ELSE "linear">>
    [] OTHER             -> <<"other">>

CInit == l = 1 /\ k = 0 /\ acc = <<>> /\ bad = FALSE /\ facts = {}
CPlain == /\ ~IsChainEvent(Rec[l])
          /\ IF ExplainsC(Rec[l]) THEN facts' = facts \cup {FactOf(Rec[l])}
                                  ELSE Reject(l) /\ facts' = facts
          /\ l' = l + 1 /\ UNCHANGED <<k, acc, bad>>
CChainEnd == /\ IsChainEvent(Rec[l]) /\ k > Len(Rec[l].chain)
             /\ IF ~bad /\ VecEq(acc, ChainRes(Rec[l])) THEN facts' = facts \cup {FactOf(Rec[l])}
                                                        ELSE Reject(l) /\ facts' = facts
             /\ l' = l + 1 /\ k' = 0 /\ acc' = <<>> /\ bad' = FALSE
CNext == l <= Len(Rec) /\ (CPlain \/ ((ChainStart \/ ChainLink) /\ UNCHANGED facts) \/ CChainEnd)
CSpec == CInit /\ [][CNext]_cvars

\* ---- the certificates, evaluated on the final state ------------------------------------------------------
\* every failed condition is printed (DATA_FAIL: committed specification data; CERT_FAIL: the recorded
\* constants / results do not certify the property); Failed counts them
Chk(cond, kind, what, f) == IF cond THEN 0 ELSE IF PrintT("TAG " \o kind \o " | " \o ToString(f) \o " | " \o what) THEN 1 ELSE 1

ExpFact(f, a, e, r) == <<"exp", f, 1, <<Trim(a)>>, Trim(e), <<Trim(r)>>>> \in facts
ExpFactNot1(f, a, e) == \E t \in facts : /\ t[1] = "exp" /\ t[2] = f /\ t[3] = 1 /\ t[4] = <<Trim(a)>> /\ t[5] = Trim(e)
                                        /\ t[6] # <<BOne>>
Cofactor(f, i) == CofactorOf(FactorData(f), i)                              \* (p-1)/q_i

DiscOf(f) == IF f = "f64" THEN BSub(Modulus(f), BN(7)) ELSE BN(5)        \* 1 - 4c for x^2 - x + c
HalfOrder(f) == BDivModInt(PMinus1(f), 2)[1]
ExtCombos == {<<"f64", 2>>, <<"f64", 3>>, <<"f62", 2>>, <<"f62", 3>>, <<"f128", 2>>}

FailedField(f) ==
  LET g == GeneratorOf(f)  fd == FactorData(f) IN
    Chk(FactorDataOk(f), "DATA_FAIL", "factorisation of p-1", f)
  + Chk(\E t \in facts : t[1] = "consts" /\ t[2] = f, "CERT_FAIL", "constants (MODULUS, MODULUS_BITS, TWO_ADICITY, GENERATOR, ELEMENT_BYTES, ZERO, ONE)", f)
  + Chk(ExpFact(f, g, PMinus1(f), BOne), "CERT_FAIL", "GENERATOR^(p-1) = 1", f)
  + Chk(\A i \in 1..Len(fd) : ExpFactNot1(f, g, Cofactor(f, i)), "CERT_FAIL",
        "GENERATOR^((p-1)/q) # 1 for every prime q of p-1 (p prime, GENERATOR generates the group)", f)
  + Chk(\A n \in 1..TwoAdicityOf(f) : \E t \in facts : t[1] = "root" /\ t[2] = f /\ t[3] = n, "CERT_FAIL",
        "get_root_of_unity(n) has exact order 2^n for every n <= TWO_ADICITY", f)
  + Chk(\E t \in facts, c \in facts : /\ t[1] = "root" /\ t[2] = f /\ t[3] = TwoAdicityOf(f)
                                       /\ c[1] = "consts" /\ c[2] = f /\ c[3] = t[4], "CERT_FAIL",
        "TWO_ADIC_ROOT_OF_UNITY = get_root_of_unity(TWO_ADICITY)", f)
  + Chk(ExpFact(f, DiscOf(f), HalfOrder(f), PMinus1(f)), "CERT_FAIL",
        "discriminant of the quadratic extension polynomial is a non-residue (Euler criterion)", f)

FailedExt(c) ==
    Chk(\A kk \in 1..(c[2] - 1) : <<"frobcert", c[1], c[2], kk>> \in facts, "DATA_FAIL", "Frobenius basis images", c)
  + Chk(<<"unit", c[1], c[2]>> \in facts, "CERT_FAIL", "extension polynomial irreducible (x^p - x invertible modulo it)", c)
  + Chk(<<"econsts", c[1], c[2]>> \in facts, "CERT_FAIL", "extension constants (ELEMENT_BYTES, EXTENSION_DEGREE, ZERO, ONE)", c)
  + Chk(<<"conj", c[1], c[2], "chain">> \in facts /\ <<"conj", c[1], c[2], "linear">> \in facts, "CERT_FAIL",
        "conjugate() = x^p (Frobenius constants)", c)

\* one validation run per field (environment variable FIELD), so the three run in parallel
Fld == IOEnv.FIELD
Failed == FailedField(Fld)
          + (IF Supported(Fld, 2) THEN FailedExt(<<Fld, 2>>) ELSE 0)
          + (IF Supported(Fld, 3) THEN FailedExt(<<Fld, 3>>) ELSE 0)
Conclusion == (l = Len(Rec) + 1) => PrintT(<<"CONCLUSION", Failed, Cardinality(facts)>>)

\* ---- plan: what the recorder must ask the real code (Generate -> Record -> Validate) ---------------------
Plan == [f \in Fields |-> [gen  |-> GeneratorOf(f),
                           exps |-> <<PMinus1(f)>> \o [i \in 1..Len(FactorData(f)) |-> Cofactor(f, i)],
                           disc |-> DiscOf(f), half |-> HalfOrder(f), two_adicity |-> TwoAdicityOf(f)]]
PInit == CInit /\ PrintT(<<"PLAN", ToJson(Plan)>>)
PNext == UNCHANGED cvars
=============================================================================
