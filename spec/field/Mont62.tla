------------------------------- MODULE Mont62 -------------------------------
(* Mechanism E (design level): word-size-scaled transcription of math/src/field/f62/mod.rs.

   The 62-bit field keeps elements in Montgomery form (radix 2^64) LAZILY reduced to [0, 2M) in a
   64-bit word, with M = 2^62 - 111*2^39 + 1 just below 2^62.  The routines are transcribed over a
   word size Wd and a prime P that satisfy every inequality the real constants satisfy and the code
   relies on (checked below):   P < 2^(Wd-2),   3P > 2^(Wd-1),   P odd prime.
   Instances: (Wd, P) = (8, 61) and (10, 193).  [(8, 41) violates 3P > 2^(Wd-1) and is NOT faithful.]

   add, sub, neg, double, mul (Montgomery with U = -P^-1 mod 2^Wd), new, as_int, normalize, ==,
   exp (as written: early exits, right-to-left), and inv — the binary extended GCD, with FUEL: every
   loop iteration consumes one unit, and running out of fuel is reported as non-termination (the real
   loops need < 4*Wd iterations in total; Fuel = 16*Wd).

   TLC enumerates every pair (x, y) of internal values of the documented range [0, 2P) and checks that
   every operation is exact on canonical values, stays in [0, 2P), that == is canonical equality, and
   that inv terminates.  FixInv = FALSE is the routine as found (zero test on the raw value only). *)
EXTENDS Integers, Sequences, TLC, Json

CONSTANTS Wd, P, FixInv

B == 2 ^ Wd
Q == 2 ^ (Wd - 2)

ASSUME P < Q /\ 3 * P > 2 ^ (Wd - 1) /\ P % 2 = 1
ASSUME \A d \in 2..(P - 1) : d * d > P \/ P % d # 0

U  == CHOOSE u \in 0..(B - 1) : (u * P + 1) % B = 0        \* -P^-1 mod 2^Wd
R2 == (B * B) % P
R3 == (B * B * B) % P
Fuel == 16 * Wd

\* mul(a, b): Montgomery product, result in [0, 2P) for a, b in [0, 2P)
Mul(a, b) == LET z == a * b
                 q == ((z % B) * U) % B
             IN (z + q * P) \div B
Add(a, b) == LET z == a + b IN z - (z \div Q) * P
Sub(a, b) == IF a < b THEN 2 * P - b + a ELSE a - b
Neg(a)    == Sub(0, a)
Double(a) == LET z == 2 * a IN z - (z \div Q) * P
Normalize(v) == IF v >= P THEN v - P ELSE v
Equals(a, b) == Normalize(a) = Normalize(b)
New(v)    == Mul(v, R2)
AsInt(a)  == Normalize(Mul(a, 1))
Zero == New(0)
One  == New(1)
Square(a) == Mul(a, a)

\* exp as written (power: a Wd-bit integer)
BitLen(n) == IF n = 0 THEN 0 ELSE CHOOSE k \in 1..Wd : 2 ^ (k - 1) <= n /\ n < 2 ^ k
RECURSIVE ExpLoop(_, _, _, _, _)
ExpLoop(b, r, power, i, n) ==
  IF i >= n THEN r
  ELSE LET b2 == Square(b) IN
       ExpLoop(b2, IF (power \div (2 ^ i)) % 2 = 1 THEN Mul(r, b2) ELSE r, power, i + 1, n)
Exp(a, power) ==
  IF power = 0 THEN One
  ELSE IF Equals(a, Zero) THEN Zero
  ELSE ExpLoop(a, IF power % 2 = 1 THEN a ELSE One, power, 1, BitLen(power))

\* inv(x): binary extended GCD; returns [ok, v, fuel]; ok = FALSE when the fuel ran out
RECURSIVE HalveU(_, _, _), InnerLoop(_, _, _, _, _), HalveV(_, _, _), Outer(_, _, _, _, _)
\* while u & 1 == 0 { if d & 1 == 1 { d += M }; u >>= 1; d >>= 1 }
HalveU(u, d, f) == IF f = 0 THEN [ok |-> FALSE, u |-> u, d |-> d, f |-> 0]
                   ELSE IF u % 2 = 1 THEN [ok |-> TRUE, u |-> u, d |-> d, f |-> f]
                   ELSE HalveU(u \div 2, (IF d % 2 = 1 THEN d + P ELSE d) \div 2, f - 1)
\* while v < u { u -= v; d += a; <HalveU> }
InnerLoop(u, v, a, d, f) ==
  IF f = 0 THEN [ok |-> FALSE, u |-> u, d |-> d, f |-> 0]
  ELSE IF ~(v < u) THEN [ok |-> TRUE, u |-> u, d |-> d, f |-> f]
  ELSE LET h == HalveU(u - v, d + a, f - 1) IN
       IF ~h.ok THEN h ELSE InnerLoop(h.u, v, a, h.d, h.f)
\* while v & 1 == 0 { if a & 1 == 1 { a += M }; v >>= 1; a >>= 1 }   (v = 0 never becomes odd)
HalveV(v, a, f) == IF f = 0 THEN [ok |-> FALSE, v |-> v, a |-> a, f |-> 0]
                   ELSE IF v % 2 = 1 THEN [ok |-> TRUE, v |-> v, a |-> a, f |-> f]
                   ELSE HalveV(v \div 2, (IF a % 2 = 1 THEN a + P ELSE a) \div 2, f - 1)
\* while v != 1 { <InnerLoop>; v -= u; a += d; <HalveV> }
Outer(u, v, a, d, f) ==
  IF f = 0 THEN [ok |-> FALSE, a |-> a, f |-> 0]
  ELSE IF v = 1 THEN [ok |-> TRUE, a |-> a, f |-> f]
  ELSE LET i == InnerLoop(u, v, a, d, f - 1) IN
       IF ~i.ok THEN [ok |-> FALSE, a |-> a, f |-> 0]
       ELSE LET h == HalveV(v - i.u, a + i.d, i.f) IN
            IF ~h.ok THEN [ok |-> FALSE, a |-> a, f |-> 0]
            ELSE Outer(i.u, h.v, h.a, i.d, h.f)
RECURSIVE ReduceA(_, _)
ReduceA(a, f) == IF f = 0 THEN [ok |-> FALSE, a |-> a] ELSE IF a > P THEN ReduceA(a - P, f - 1) ELSE [ok |-> TRUE, a |-> a]
Inv(x) ==
  IF x = 0 \/ (FixInv /\ x = P) THEN [ok |-> TRUE, v |-> 0]
  ELSE LET o == Outer(IF x % 2 = 1 THEN x ELSE x + P, P, 0, P - 1, Fuel) IN
       IF ~o.ok THEN [ok |-> FALSE, v |-> 0]
       ELSE LET r == ReduceA(o.a, Fuel) IN
            IF ~r.ok THEN [ok |-> FALSE, v |-> 0] ELSE [ok |-> TRUE, v |-> Mul(r.a, R3)]

\* ---- meaning of a representation -------------------------------------------------------------------
Rinv == CHOOSE r \in 0..(P - 1) : (r * (B % P)) % P = 1
Val(x) == (x * Rinv) % P

VARIABLES x, y
vars == <<x, y>>
Reps == 0..(2 * P - 1)
Exps == {0, 1, 2, 3, 5, P - 2, P - 1, P, B - 1}

Init == x \in Reps /\ y \in Reps
Results == {Add(x, y), Sub(x, y), Mul(x, y), Neg(x), Double(x), Square(x)}
\* every pair is an initial state; ClosedOk shows no operation leaves the range, so there is nothing
\* further to explore
Next == UNCHANGED vars
Spec == Init /\ [][Next]_vars

PowMod(a, e) == LET RECURSIVE Pw(_, _)
                    Pw(acc, i) == IF i < 0 THEN acc
                                  ELSE LET s == (acc * acc) % P IN
                                       Pw(IF (e \div (2 ^ i)) % 2 = 1 THEN (s * a) % P ELSE s, i - 1)
                IN Pw(1, Wd - 1)

Check(op, r, expect) == [op |-> op, r |-> r, ok |-> (r \in Reps /\ Val(r) = expect)]
Binary == << Check("add", Add(x, y), (Val(x) + Val(y)) % P),
             Check("sub", Sub(x, y), (Val(x) - Val(y) + P) % P),
             Check("mul", Mul(x, y), (Val(x) * Val(y)) % P) >>
Unary  == << Check("neg", Neg(x), (P - Val(x)) % P),
             Check("double", Double(x), (2 * Val(x)) % P),
             Check("square", Square(x), (Val(x) * Val(x)) % P),
             Check("as_int", New(AsInt(x)), Val(x)) >>

ExactBinary == \A i \in 1..Len(Binary) : Binary[i].ok
\* unary routines do not depend on y: checked on the diagonal only
ExactUnary  == x = y => \A i \in 1..Len(Unary) : Unary[i].ok
AsIntOk     == x = y => AsInt(x) = Val(x)
EqOk        == Equals(x, y) <=> (Val(x) = Val(y))
NewOk       == x = y => \A v \in {x, x + 2 * P, B - 1 - x} : v >= B \/ (New(v) \in Reps /\ Val(New(v)) = v % P)
InvOk       == x = y => LET i == Inv(x) IN
                        /\ i.ok                                                   \* terminates
                        /\ i.v \in Reps
                        /\ (Val(i.v) * Val(x)) % P = (IF Val(x) = 0 THEN 0 ELSE 1)
ExpOk       == x = y => \A e \in Exps : LET r == Exp(x, e) IN r \in Reps /\ Val(r) = PowMod(Val(x), e)
ClosedOk    == \A r \in Results : r \in Reps

Correct == ExactBinary /\ ExactUnary /\ AsIntOk /\ EqOk /\ NewOk /\ InvOk /\ ExpOk /\ ClosedOk

\* every value of the documented range is reachable through the public API (so none of it is vacuous):
\* new(v) for all word values, closed under the operations (checked by the Reach configuration)
Finding(op, r, note) == PrintT(<<"FINDING", ToJson([Wd |-> Wd, P |-> P, op |-> op, x |-> x, y |-> y, r |-> r, note |-> note])>>)
Report ==
  /\ \A i \in 1..Len(Binary) : Binary[i].ok \/ Finding(Binary[i].op, Binary[i].r, "inexact")
  /\ (x = y => \A i \in 1..Len(Unary) : Unary[i].ok \/ Finding(Unary[i].op, Unary[i].r, "inexact"))
  /\ (EqOk \/ Finding("eq", 0, "not canonical"))
  /\ (x = y => LET i == Inv(x) IN
               IF ~i.ok THEN Finding("inv", 0, "does not terminate")
               ELSE (i.v \in Reps /\ (Val(i.v) * Val(x)) % P = (IF Val(x) = 0 THEN 0 ELSE 1)) \/ Finding("inv", i.v, "inexact"))
  /\ (ExpOk \/ Finding("exp", 0, "inexact"))
  /\ (AsIntOk \/ Finding("as_int", AsInt(x), "inexact"))
=============================================================================
