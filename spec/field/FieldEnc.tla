------------------------------- MODULE FieldEnc -------------------------------
(* C11 (encodings) — Generate -> Replay.  Element encodings are canonical little-endian integers of
   ELEMENT_BYTES bytes per base coordinate: every value below the modulus decodes to itself and
   re-encodes to the same bytes; every value at or above the modulus, and every wrong length, is
   rejected by every decoder; integer conversions agree with the canonical value.

   Every CASE is an initial state: a decoder, an input (bytes; integers are given as their 8 / 16 LE
   bytes) and the outcome THIS specification computes — "ok" with the canonical coordinates and the
   expected re-encoding, or "err".  The harness (wf-fields decoders) runs the real decoder and compares.

   Decoders (dec):
     u64, u128     TryFrom<u64> / TryFrom<u128>  (for f128, u64 is the infallible From<u64>); the
                   extension types embed the base element: (v, 0[, 0])
     arr8          TryFrom<[u8; 8]>                                   (f64, f62)
     slice         TryFrom<&[u8]>: exactly d*N bytes, every coordinate < p
     random        Randomizable::from_random_bytes: Some under the same condition
     read          Deserializable::read_from / read_from_bytes on a slice reader: the first d*N bytes,
                   more input is not an error
     padded        StarkField::from_bytes_with_padding, only on its documented domain (fewer than N bytes)
     many          ByteReader::read_many::<E>(n): n elements, all must be valid
   Inputs are built around 0, p-2..p+2, 2^62, 2^63, 2^64 - 1, 2^64, 2^127, 2^128 - 1 and the other
   fields' moduli, at lengths 0, 1, N-1, N, N+1, 2N-1, 2N, 2N+1, 3N, 3N+1. *)
EXTENDS Integers, Sequences, TLC, Json, BigNat, FieldDefs

CONSTANT Full          \* TRUE: thorough tier (more coordinate values)
VARIABLE c
N(f) == ElementBytes(f)

\* interesting integers (BigNat), all below 2^128
Around(x) == {BSub(x, BN(2)), BSub(x, BOne), x, BAdd(x, BOne), BAdd(x, BN(2))}
Specials == {<<>>, BOne, BN(2), BN(255), BN(256)}
            \cup UNION {Around(Modulus(f)) : f \in Fields}
            \cup UNION {Around(BPow2(k)) : k \in {32, 62, 63, 64, 127}}
            \cup {BSub(BPow2(128), BOne), BSub(BPow2(128), BN(2)), BSub(BPow2(64), BOne)}
            \cup {BMulInt(Modulus("f62"), 2), BSub(BMulInt(Modulus("f62"), 2), BOne)}
Fits(v, n) == Len(Trim(v)) <= n
AsBytes(v, n) == PadTo(Trim(v), n)                      \* exact n-byte LE encoding of v < 256^n
Resize(bs, n) == IF n <= 0 THEN <<>> ELSE IF Len(bs) >= n THEN SubSeq(bs, 1, n) ELSE PadTo(bs, n)

\* ---- the meaning of an encoding --------------------------------------------------------------------
Chunk(bs, i, n) == SubSeq(bs, (i - 1) * n + 1, i * n)
ValidElem(f, bs) == Len(bs) = N(f) /\ BLess(bs, Modulus(f))
\* decode d coordinates from exactly d*N bytes
ValidElems(f, d, bs) == Len(bs) = d * N(f) /\ \A i \in 1..d : ValidElem(f, Chunk(bs, i, N(f)))
Coords(f, d, bs) == [i \in 1..d |-> Trim(Chunk(bs, i, N(f)))]

Ok(f, d, bs)  == [t |-> "ok", v |-> Coords(f, d, bs), enc |-> bs]
\* v mod p for v < 8p (repeated subtraction)
RECURSIVE ModSmall(_, _)
ModSmall(v, p) == IF BLess(v, p) THEN v ELSE ModSmall(BSub(v, p), p)
Err == [t |-> "err", v |-> <<>>, enc |-> <<>>]

Expect(f, d, dec, inp, n) ==
  LET nb == d * N(f) IN
  CASE dec \in {"slice", "random"} -> IF ValidElems(f, d, inp) THEN Ok(f, d, inp) ELSE Err
    [] dec = "arr8"   -> IF ValidElem(f, inp) THEN Ok(f, 1, inp) ELSE Err
    [] dec = "read"   -> IF Len(inp) >= nb /\ ValidElems(f, d, SubSeq(inp, 1, nb)) THEN Ok(f, d, SubSeq(inp, 1, nb)) ELSE Err
    [] dec \in {"u64", "u128"} ->
         \* inp = the integer's LE bytes (8 or 16); valid iff the integer is < p; result (v, 0, ..)
         IF BLess(inp, Modulus(f))
           THEN LET enc == AsBytes(inp, N(f)) \o Zeros((d - 1) * N(f)) IN Ok(f, d, enc)
           ELSE Err
    [] dec = "padded" -> Ok(f, 1, AsBytes(inp, N(f)))     \* fewer than N bytes: always a valid element
    \* ---- elements produced by constructors / arithmetic, then observed through the encoders ----
    \* new(v): the integer reduced modulo p, embedded as (v mod p, 0, ..)
    [] dec = "new"    -> Ok(f, d, AsBytes(ModSmall(Trim(inp), Modulus(f)), N(f)) \o Zeros((d - 1) * N(f)))
    \* x + (-x), x - x, x*y + (-(y*x)) with y = x + 1: zero, whatever the internal representation
    [] dec \in {"zneg", "zsub", "zmul"} -> Ok(f, d, Zeros(nb))
    \* a + b for the two encoded elements a, b: coordinate-wise sum modulo p
    [] dec = "addc"   -> Ok(f, d, Concat([i \in 1..d |->
                            AsBytes(ModSmall(BAdd(Trim(Chunk(inp, i, N(f))), Trim(Chunk(inp, d + i, N(f)))), Modulus(f)), N(f))]))
    [] dec = "many"   -> IF Len(inp) >= n * nb /\ \A j \in 1..n : ValidElems(f, d, Chunk(inp, j, nb))
                           THEN [t |-> "ok", v |-> [j \in 1..n |-> Coords(f, d, Chunk(inp, j, nb))], enc |-> SubSeq(inp, 1, n * nb)]
                           ELSE Err

\* ---- case enumeration ------------------------------------------------------------------------------
Lens(f, d) == LET nb == d * N(f) IN {0, 1, nb - 1, nb, nb + 1, 2 * nb - 1, 2 * nb, 2 * nb + 1, 3 * nb, 3 * nb + 1, N(f) - 1, N(f) + 1}
Combos == {fd \in Fields \X (1..3) : Supported(fd[1], fd[2])}
\* coordinate values for multi-coordinate inputs
CoordVals(f) == {<<>>, BSub(Modulus(f), BOne), Modulus(f), BSub(BPow2(8 * N(f)), BOne)}
                \cup (IF Full THEN {BOne, BAdd(Modulus(f), BOne), BSub(Modulus(f), BN(2)), BPow2(8 * N(f) - 1)} ELSE {})
SeqsOf(S, n) == IF n = 0 THEN {<<>>} ELSE IF n = 1 THEN {<<x>> : x \in S}
                ELSE IF n = 2 THEN {<<x, y>> : x \in S, y \in S}
                ELSE {<<x, y, z>> : x \in S, y \in S, z \in S}
Pack(f, vs) == Concat([i \in 1..Len(vs) |-> AsBytes(vs[i], N(f))])

Case(f, d, dec, inp, n) == [f |-> f, d |-> d, dec |-> dec, inp |-> inp, n |-> n, exp |-> Expect(f, d, dec, inp, n)]

ByteCases ==
  \* single-value inputs at many lengths, for every byte decoder of every type
  UNION { { Case(fd[1], fd[2], dec, Resize(AsBytes(v, 16), len), 0) :
              dec \in {"slice", "random", "read"}, v \in Specials, len \in Lens(fd[1], fd[2]) } : fd \in Combos }
  \cup
  \* all coordinate combinations at the exact length and with one extra / missing byte
  UNION { { Case(fd[1], fd[2], dec, Resize(Pack(fd[1], vs), fd[2] * N(fd[1]) + delta), 0) :
              dec \in {"slice", "random", "read"}, vs \in SeqsOf(CoordVals(fd[1]), fd[2]), delta \in {-1, 0, 1} } :
          fd \in {x \in Combos : x[2] > 1} }
IntCases ==
  { Case(fd[1], fd[2], "u64", AsBytes(v, 8), 0) : fd \in Combos, v \in {x \in Specials : Fits(x, 8)} }
  \cup { Case(fd[1], fd[2], "u128", AsBytes(v, 16), 0) : fd \in Combos, v \in Specials }
  \cup { Case(f, 1, "arr8", AsBytes(v, 8), 0) : f \in {"f64", "f62"}, v \in {x \in Specials : Fits(x, 8)} }
PadCases ==
  UNION { { Case(f, 1, "padded", Resize(AsBytes(v, 16), len), 0) : v \in Specials, len \in {0, 1, 2, N(f) - 2, N(f) - 1} } :
          f \in Fields }
ManyCases ==
  \* n elements requested from the encoding of 3 base values (+/- a few bytes)
  UNION { { Case(fd[1], fd[2], "many", Resize(Pack(fd[1], vs), n * fd[2] * N(fd[1]) + delta), n) :
              n \in {0, 1, 2}, delta \in {-1, 0, 3}, vs \in SeqsOf(CoordVals(fd[1]), 3) } :
          fd \in {x \in Combos : x[2] < 3} }
  \cup
  UNION { { Case(fd[1], 3, "many", Pack(fd[1], vs \o vs), n) :
              n \in {1, 2}, vs \in SeqsOf({<<>>, BSub(Modulus(fd[1]), BOne), Modulus(fd[1])}, 3) } :
          fd \in {x \in Combos : x[2] = 3} }

\* constructors and arithmetic results (the internal representation of the result need not be the
\* canonical one; every encoder must still report the canonical value)
NewVals(f) == {v \in Specials : Fits(v, N(f))}
ExprCases ==
  UNION { { Case(fd[1], fd[2], "new", AsBytes(v, N(fd[1])), 0) : v \in NewVals(fd[1]) } : fd \in Combos }
  \cup
  UNION { { Case(fd[1], fd[2], dec, Pack(fd[1], vs), 0) :
              dec \in {"zneg", "zsub", "zmul"}, vs \in SeqsOf({v \in Specials \cup CoordVals(fd[1]) : BLess(v, Modulus(fd[1]))}, fd[2]) } :
          fd \in {x \in Combos : x[2] = 1 \/ Full} }
  \cup
  UNION { { Case(fd[1], fd[2], "zneg", Pack(fd[1], vs), 0) :
              vs \in SeqsOf({<<>>, BOne, BSub(Modulus(fd[1]), BOne)}, fd[2]) } : fd \in {x \in Combos : x[2] > 1} }
  \cup
  UNION { { Case(fd[1], fd[2], "addc", Pack(fd[1], va \o vb), 0) :
              va \in SeqsOf({<<>>, BOne, BSub(Modulus(fd[1]), BOne), BSub(Modulus(fd[1]), BN(2))}, fd[2]),
              vb \in SeqsOf({BOne, BSub(Modulus(fd[1]), BOne)}, fd[2]) } : fd \in Combos }

Cases == {x \in ByteCases \cup IntCases \cup PadCases \cup ManyCases \cup ExprCases : Len(x.inp) >= 0}

Init == c \in Cases
Next == UNCHANGED c
Emit == PrintT(<<"REPLAY", ToJson(c)>>)
=============================================================================
