\* routines as found in the pinned tree: prints every root-cause violation (design findings, not a gate)
SPECIFICATION Spec
CONSTANTS K = 4  FixDouble = FALSE  FixMulSmall = FALSE
INVARIANT Report
CHECK_DEADLOCK FALSE
