SPECIFICATION Spec
CONSTANTS K = 2  FixDouble = FALSE  FixMulSmall = FALSE
INVARIANT Report
CHECK_DEADLOCK FALSE
