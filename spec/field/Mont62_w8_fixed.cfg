SPECIFICATION Spec
CONSTANTS Wd = 8  P = 61  FixInv = TRUE
INVARIANT Correct
CHECK_DEADLOCK FALSE
