--------------------------- MODULE TraceFieldOps ---------------------------
(* Trace validation of recorded field operations against exact modular arithmetic (mechanism B + D).
   Every event of the ndjson trace named by the environment variable TRACE is one public call on a
   real field element, logged at its return:
     {"f": "f64", "op": "mul", "a": [..le bytes of as_int..], "b": [..], "r": [..], "q": [..hint..]}
   The trace is accepted iff every event is explained by the specification.  On rejection the
   postcondition prints the index of the first unexplained event. *)
EXTENDS Integers, Sequences, TLC, Json, IOUtils, BigNat

Rec == ndJsonDeserialize(IOEnv.TRACE)

VARIABLE l
vars == <<l>>

Modulus(f) == CASE f = "f64"  -> <<1, 0, 0, 0, 255, 255, 255, 255>>                      \* 2^64 - 2^32 + 1
                [] f = "f62"  -> <<1, 0, 0, 0, 128, 200, 255, 63>>                         \* 2^62 - 111*2^39 + 1
                [] f = "f128" -> <<1, 0, 0, 0, 0, 211, 255, 255, 255, 255, 255, 255, 255, 255, 255, 255>>  \* 2^128 - 45*2^40 + 1

Canon(e, p) == BLess(e, p)

Explains(e) ==
  LET p == Modulus(e.f) IN
  /\ Canon(e.a, p)
  /\ Canon(e.r, p)
  /\ CASE e.op = "add" -> Canon(e.b, p) /\ BEq(e.r, ModAdd(e.a, e.b, p))
       [] e.op = "sub" -> Canon(e.b, p) /\ BEq(e.r, ModSub(e.a, e.b, p))
       [] e.op = "neg" -> BEq(e.r, ModNeg(e.a, p))
       [] e.op = "mul" -> Canon(e.b, p) /\ IsModMul(e.a, e.b, e.r, e.q, p)
       [] OTHER -> FALSE

Init == l = 1
Next == /\ l <= Len(Rec)
        /\ Explains(Rec[l])
        /\ l' = l + 1
Spec == Init /\ [][Next]_vars

\* l only grows, and with one worker the register holds the largest l reached: the index of the first
\* unexplained event (or Len(Rec)+1 when the whole trace was consumed)
Progress == TLCSet(7, l)
Accepted == IF TLCGet(7) = Len(Rec) + 1 THEN TRUE
            ELSE Print(<<"REJECTED_AT", TLCGet(7)>>, FALSE)
=============================================================================
