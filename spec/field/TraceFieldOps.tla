--------------------------- MODULE TraceFieldOps ---------------------------
(* C10 — trace validation of recorded field operations against exact modular arithmetic
   (mechanism B + D of DESIGN.md).

   Every event of the ndjson trace named by the environment variable TRACE is one public call on a
   real winterfell field element (f64, f62, f128 and their quadratic / cubic extensions), logged at
   its return by harness/fields:
       f, d        field name and extension degree (1, 2, 3)
       op          new | from_mont | from | add | sub | neg | double | square | cube | mul | mul_base |
                   mul_small | inv | div | exp | conj | eq
       a, b, r     operands / result as coordinate vectors of canonical values (as_int, LE bytes)
       v, e        integer argument of new / from_mont, exponent of exp (LE bytes)
       h, h2, s, chain   untrusted witnesses (quotients, the square of cube, square-and-multiply links)
       eq          result of == (0/1)
       timeout / panic / crash   the call did not return normally
   (raw representations, classes and provenance are also logged; they are used for reporting only and
   are never read here).  `Explains(e)` is the specification of the call: exact arithmetic modulo the
   documented prime and extension polynomial (FieldDefs).  An event is accepted iff it is explained;
   there is NO accepting action for a call that timed out, panicked or crashed.

   Unlike the first-rejection idiom, validation continues after an unexplained event and prints its
   index (<<"REJECTED_EVENT", l>>): events are self-contained (operands are logged with every call),
   so one violation cannot hide later ones.  The postcondition checks the whole trace was consumed. *)
EXTENDS Integers, Sequences, TLC, Json, IOUtils, BigNat, FieldDefs

Rec == ndJsonDeserialize(IOEnv.TRACE)

VARIABLE l

ASSUME \A f \in Fields : BEq(Modulus(f), ModulusClosedForm(f))

Has(e, k) == k \in DOMAIN e
Returned(e) == ~Has(e, "timeout") /\ ~Has(e, "panic") /\ ~Has(e, "crash")

R64 == BPow2(64)       \* Montgomery radix of f64::from_mont

Explains(e) ==
  LET f == e.f  d == e.d  p == Modulus(e.f)  op == e.op IN
  /\ Returned(e)
  /\ Supported(f, d)
  /\ CASE op = "new" ->
            \* BaseElement::new(v) / From<small int>: the canonical value is v mod p
            /\ CanonVec(e.r, 1, p)
            /\ IsDivMod(e.v, p, e.h[1].q, e.r[1])
       [] op = "from_mont" ->
            \* f64: the element whose Montgomery form (radix 2^64) is v < p:  r * 2^64 = v (mod p)
            /\ f = "f64" /\ Canon(e.v, p) /\ CanonVec(e.r, 1, p)
            /\ IsDivMod(BMul(e.r[1], R64), p, e.h[1].q, e.v)
       [] op = "from" ->
            \* embedding of a base element
            /\ CanonVec(e.a, 1, p) /\ CanonVec(e.r, d, p)
            /\ BEq(e.r[1], e.a[1]) /\ \A i \in 2..d : BIsZero(e.r[i])
       [] op \in {"add", "sub"} ->
            /\ CanonVec(e.a, d, p) /\ CanonVec(e.b, d, p) /\ CanonVec(e.r, d, p)
            /\ \A i \in 1..d : BEq(e.r[i], IF op = "add" THEN ModAdd(e.a[i], e.b[i], p)
                                                        ELSE ModSub(e.a[i], e.b[i], p))
       [] op \in {"neg", "double"} ->
            /\ CanonVec(e.a, d, p) /\ CanonVec(e.r, d, p)
            /\ \A i \in 1..d : BEq(e.r[i], IF op = "neg" THEN ModNeg(e.a[i], p)
                                                        ELSE ModAdd(e.a[i], e.a[i], p))
       [] op = "mul" ->
            /\ CanonVec(e.a, d, p) /\ CanonVec(e.b, d, p)
            /\ ExtMulOk(f, d, e.a, e.b, e.r, e.h)
       [] op = "square" ->
            /\ CanonVec(e.a, d, p)
            /\ ExtMulOk(f, d, e.a, e.a, e.r, e.h)
       [] op = "cube" ->
            /\ CanonVec(e.a, d, p)
            /\ ExtMulOk(f, d, e.a, e.a, e.s, e.h)
            /\ ExtMulOk(f, d, e.s, e.a, e.r, e.h2)
       [] op \in {"mul_base", "mul_small"} ->
            \* extension element times base element; f64::mul_small: base element times a u32
            /\ (op = "mul_small" => f = "f64" /\ d = 1 /\ BLess(e.b[1], BPow2(32)))
            /\ (op = "mul_base" => Canon(e.b[1], p))
            /\ CanonVec(e.a, d, p) /\ CanonVec(e.r, d, p) /\ Len(e.h) = d
            /\ \A i \in 1..d : IsModMul(e.a[i], e.b[1], e.r[i], e.h[i].q, p)
       [] op = "inv" ->
            \* inv(0) = 0, otherwise a * r = 1
            /\ CanonVec(e.a, d, p) /\ CanonVec(e.r, d, p)
            /\ IF IsZeroVec(e.a) THEN IsZeroVec(e.r)
                                 ELSE ExtMulOk(f, d, e.a, e.r, OneVec(d), e.h)
       [] op = "div" ->
            \* a / b = a * inv(b): zero for b = 0, otherwise the unique r with r * b = a
            /\ CanonVec(e.a, d, p) /\ CanonVec(e.b, d, p) /\ CanonVec(e.r, d, p)
            /\ IF IsZeroVec(e.b) THEN IsZeroVec(e.r)
                                 ELSE ExtMulOk(f, d, e.r, e.b, e.a, e.h)
       [] op = "conj" ->
            \* conjugate() is the Frobenius map y |-> y^p (identity on the base field)
            /\ CanonVec(e.a, d, p) /\ CanonVec(e.r, d, p)
            \* (events carrying a p-th power chain instead of linear hints: see the chain sub-steps)
            /\ IF d = 1 THEN VecEq(e.r, e.a) ELSE FrobLinearOk(f, d, e.a, e.r, e.h)
       [] op = "eq" ->
            \* == holds exactly when the canonical values are equal
            /\ CanonVec(e.a, d, p) /\ CanonVec(e.b, d, p)
            /\ e.eq = (IF VecEq(e.a, e.b) THEN 1 ELSE 0)
       [] OTHER -> FALSE

(* ---- chains: one TLC step per square-and-multiply link ------------------------------------------
   exp, conj-with-chain and frobcert events carry a chain of up to 127 links.  They are validated by
   sub-steps (k = index of the next link, acc = running power, bad = some link failed) instead of one
   deep recursive evaluation; the definition is exactly FieldDefs!ExpChainOk. *)
IsChainEvent(e) == e.op \in {"exp", "frobcert"} \/ (e.op = "conj" /\ e.d > 1 /\ Has(e, "chain"))

ChainBase(e) == IF e.op = "frobcert" THEN [i \in 1..e.d |-> IF i = e.k + 1 THEN <<1>> ELSE <<>>] ELSE e.a
ChainExp(e)  == IF e.op = "exp" THEN e.e ELSE Modulus(e.f)
ChainRes(e)  == IF e.op = "frobcert" THEN FrobImg(e.f, e.d)[e.k + 1] ELSE e.r

ChainPre(e) ==
  LET p == Modulus(e.f) IN
  /\ Returned(e)
  /\ Supported(e.f, e.d)
  /\ (e.op = "frobcert" => e.d > 1 /\ e.k \in 1..(e.d - 1))
  /\ CanonVec(ChainBase(e), e.d, p) /\ CanonVec(ChainRes(e), e.d, p)
  /\ Len(e.chain) = (IF BitLen(ChainExp(e)) = 0 THEN 0 ELSE BitLen(ChainExp(e)) - 1)

LinkOk(e, k, a) ==
  LET lk == e.chain[k]
      j  == BitLen(ChainExp(e)) - 1 - k
  IN /\ ExtMulOk(e.f, e.d, a, a, lk.s, lk.hs)
     /\ (Bit(ChainExp(e), j) = 1 => ExtMulOk(e.f, e.d, lk.s, ChainBase(e), lk.m, lk.hm))
LinkOut(e, k) == IF Bit(ChainExp(e), BitLen(ChainExp(e)) - 1 - k) = 1 THEN e.chain[k].m ELSE e.chain[k].s

VARIABLES k, acc, bad
vars == <<l, k, acc, bad>>

Reject(i) == PrintT(<<"REJECTED_EVENT", i>>)

Init == l = 1 /\ k = 0 /\ acc = <<>> /\ bad = FALSE
Plain == /\ ~IsChainEvent(Rec[l])
         /\ IF Explains(Rec[l]) THEN TRUE ELSE Reject(l)
         /\ l' = l + 1 /\ UNCHANGED <<k, acc, bad>>
ChainStart == /\ IsChainEvent(Rec[l]) /\ k = 0
              /\ IF Returned(Rec[l]) /\ ChainPre(Rec[l])
                   THEN /\ k' = 1 /\ bad' = FALSE
                        /\ acc' = IF BitLen(ChainExp(Rec[l])) = 0 THEN OneVec(Rec[l].d) ELSE ChainBase(Rec[l])
                        /\ l' = l
                   ELSE /\ Reject(l) /\ l' = l + 1 /\ UNCHANGED <<k, acc, bad>>
ChainLink == /\ IsChainEvent(Rec[l]) /\ k > 0 /\ k <= Len(Rec[l].chain)
             /\ bad' = (bad \/ ~LinkOk(Rec[l], k, acc))
             /\ acc' = LinkOut(Rec[l], k)
             /\ k' = k + 1 /\ l' = l
ChainEnd == /\ IsChainEvent(Rec[l]) /\ k > Len(Rec[l].chain)
            /\ IF ~bad /\ VecEq(acc, ChainRes(Rec[l])) THEN TRUE ELSE Reject(l)
            /\ l' = l + 1 /\ k' = 0 /\ acc' = <<>> /\ bad' = FALSE
Next == l <= Len(Rec) /\ (Plain \/ ChainStart \/ ChainLink \/ ChainEnd)
Spec == Init /\ [][Next]_vars

\* l only grows, and with one worker the register holds the largest l reached
Progress == TLCSet(7, l)
Accepted == IF TLCGet(7) = Len(Rec) + 1 THEN PrintT(<<"CONSUMED", Len(Rec)>>)
            ELSE Print(<<"STOPPED_AT", TLCGet(7)>>, FALSE)
=============================================================================
