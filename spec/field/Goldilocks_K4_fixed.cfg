\* repaired routines, p = 241: every operation exact on every pair of representations; also prints the
\* carry/borrow classes of boundary operands for lifting
SPECIFICATION Spec
CONSTANTS K = 4  FixDouble = TRUE  FixMulSmall = TRUE
INVARIANT Correct ClassReport
CHECK_DEADLOCK FALSE
