SPECIFICATION Spec
CONSTANTS MaxLogLen = 7  MaxWidth = 6  MaxGrind = 6
  FieldHashes <- FHAll  Boundary <- BoundaryList
INVARIANT EmitDone ScheduleSane
CHECK_DEADLOCK FALSE
