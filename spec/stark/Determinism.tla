----------------------------- MODULE Determinism -----------------------------
(* C06 — run-independence monitor (trace validation).  Every event of the recorded trace is one
   observation of one prover run:
      [inst, run, comp, v, nonce]
   inst  : the (AIR, trace, public inputs, options) instance,
   run   : the build/thread variant that produced it ("serial", "concurrent-4", "async", ...),
   comp  : "context" | "commitments" | "ood" | "proof" | "verdict",
   v     : digest of the component's bytes (or the verification verdict), nonce: proof-of-work nonce.
   The specification binds each (instance, component) to the first value observed and accepts a later
   observation only if it is equal; the whole proof is keyed by (instance, nonce), because the
   multi-threaded nonce search may return any valid nonce; every run's proof must verify (so every
   reported nonce satisfies the grinding predicate). *)
EXTENDS Integers, Sequences, TLC, Json, IOUtils

Rec == ndJsonDeserialize(IOEnv.TRACE)

VARIABLES l, bound
vars == <<l, bound>>

Key(e) == IF e.comp = "proof" THEN <<e.inst, e.comp, e.nonce>> ELSE <<e.inst, e.comp>>

Init == l = 1 /\ bound = <<>>      \* bound: function from keys to values, built incrementally

Observe(e) ==
  IF e.comp = "verdict"
    THEN e.v = "accept" /\ UNCHANGED bound
    ELSE IF Key(e) \in DOMAIN bound
           THEN bound[Key(e)] = e.v /\ UNCHANGED bound
           ELSE bound' = [x \in (DOMAIN bound) \cup {Key(e)} |-> IF x = Key(e) THEN e.v ELSE bound[x]]

Next == /\ l <= Len(Rec)
        /\ Observe(Rec[l])
        /\ l' = l + 1
Spec == Init /\ [][Next]_vars

Progress == TLCSet(7, l)
Accepted == IF TLCGet(7) = Len(Rec) + 1 THEN TRUE ELSE Print(<<"REJECTED_AT", TLCGet(7)>>, FALSE)
=============================================================================
