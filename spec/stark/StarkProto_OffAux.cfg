SPECIFICATION Spec
CONSTANTS Components <- AllComponents  Disabled <- OffAux
INVARIANT Binding HonestAccepted Order
CHECK_DEADLOCK FALSE
