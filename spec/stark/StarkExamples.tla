---------------------------- MODULE StarkExamples ----------------------------
(* C01 over the AIRs bundled with the repository (examples crate): the fixed AIRs are described by the
   few quantities the protocol schedule depends on — field, trace length as a function of the example's
   size parameter, the minimal blowup its declared constraint degrees require, the hashers it is
   instantiated with — and the option part of each case is generated exactly as in StarkCfg. Expected:
   the honest proof verifies (and the FRI schedule is the predicted one); verification against wrong
   public inputs is rejected (C02). *)
EXTENDS MCStarkCfg

Examples == {
  [name |-> "fib2",        field |-> "f128", div |-> 2,  mul |-> 1,  plus |-> 0, minBlowup |-> 2, hashes |-> {"blake3_256", "blake3_192", "sha3_256"}],
  [name |-> "fib8",        field |-> "f128", div |-> 8,  mul |-> 1,  plus |-> 0, minBlowup |-> 2, hashes |-> {"blake3_256", "blake3_192", "sha3_256"}],
  [name |-> "mulfib2",     field |-> "f128", div |-> 2,  mul |-> 1,  plus |-> 0, minBlowup |-> 2, hashes |-> {"blake3_256", "blake3_192", "sha3_256"}],
  [name |-> "mulfib8",     field |-> "f128", div |-> 8,  mul |-> 1,  plus |-> 0, minBlowup |-> 2, hashes |-> {"blake3_256", "blake3_192", "sha3_256"}],
  [name |-> "fib_small",   field |-> "f64",  div |-> 2,  mul |-> 1,  plus |-> 0, minBlowup |-> 2, hashes |-> {"rp64_256", "rpjive64_256", "blake3_256", "sha3_256"}],
  [name |-> "vdf",         field |-> "f128", div |-> 1,  mul |-> 1,  plus |-> 0, minBlowup |-> 2, hashes |-> {"blake3_256", "blake3_192", "sha3_256"}],
  [name |-> "vdf_exempt",  field |-> "f128", div |-> 1,  mul |-> 1,  plus |-> 1, minBlowup |-> 2, hashes |-> {"blake3_256", "blake3_192", "sha3_256"}],
  [name |-> "rescue",      field |-> "f128", div |-> 1,  mul |-> 16, plus |-> 0, minBlowup |-> 4, hashes |-> {"blake3_256", "blake3_192", "sha3_256"}],
  [name |-> "rescue_raps", field |-> "f128", div |-> 1,  mul |-> 16, plus |-> 0, minBlowup |-> 4, hashes |-> {"blake3_256", "blake3_192", "sha3_256"}],
  [name |-> "merkle",      field |-> "f128", div |-> 1,  mul |-> 8,  plus |-> 0, minBlowup |-> 8, hashes |-> {"blake3_256", "blake3_192", "sha3_256"}] }

\* size parameter p of the example such that the trace has 2^n rows:  L = (p + plus) * mul / div
\* (merkle: p = tree depth, trace = (depth + 1) * 8 rows)
ParamFor(ex, n) == IF ex.name = "merkle" THEN (2 ^ n) \div 8 - 1
                   ELSE ((2 ^ n) * ex.div) \div ex.mul - ex.plus
MinLog(ex) == CASE ex.name \in {"rescue"} -> 4 [] ex.name = "rescue_raps" -> 6 [] ex.name = "merkle" -> 4 [] OTHER -> 3

\* the merkle example materialises a tree of 2^depth leaves: depth <= 15, i.e. at most 128 trace rows
MaxLogOf(e) == IF e.name = "merkle" THEN 7 ELSE 9

VARIABLES ex, ec, ephase
evars == <<ex, ec, ephase>>

EEmpty == [log_len |-> 3, blowup |-> 8, fold |-> 4, rem |-> 7, queries |-> 20, grind |-> 0, ext |-> 1,
           cbatch |-> 0, dbatch |-> 0, parts |-> 1, hash_rate |-> 1, hash |-> "blake3_256"]

EInit == ex \in Examples /\ ec = EEmpty /\ ephase = "size" /\ cfg = Empty /\ phase = "examples"
ESize == /\ ephase = "size"
         /\ \E n \in MinLog(ex)..MaxLogOf(ex), h \in ex.hashes, e \in ExtsOf(ex.field) :
              ec' = [ec EXCEPT !.log_len = n, !.hash = h, !.ext = e]
         /\ ephase' = "fri" /\ UNCHANGED ex
EFri == /\ ephase = "fri"
        /\ \E b \in Pow2s(1, 6), f \in {2, 4, 8, 16}, r \in {2 ^ k - 1 : k \in 0..7} :
             /\ b >= ex.minBlowup
             /\ ec' = [ec EXCEPT !.blowup = b, !.fold = f, !.rem = r]
        /\ ephase' = "queries" /\ UNCHANGED ex
EQueries == /\ ephase = "queries"
            /\ \E g \in 0..8, cb \in 0..2, db \in 0..2, p \in {1, 2, 4, 16}, hr \in {1, 4, 8} :
                 LET lde == (2 ^ ec.log_len) * ec.blowup
                     qmax == IF lde - 1 < 255 THEN lde - 1 ELSE 255 IN
                 \E q \in {RandomElement({1, 2, qmax} \cup {RandomElement(1..qmax)})} :
                   ec' = [ec EXCEPT !.queries = q, !.grind = g, !.cbatch = cb, !.dbatch = db, !.parts = p, !.hash_rate = hr]
            /\ ephase' = "final" /\ UNCHANGED ex
EDone == ephase = "final" /\ ephase' = "done" /\ UNCHANGED <<ex, ec>>
ENext == (ESize \/ EFri \/ EQueries \/ EDone) /\ UNCHANGED <<cfg, phase>>
ESpec == EInit /\ [][ENext]_<<ex, ec, ephase, cfg, phase>>

ELde == (2 ^ ec.log_len) * ec.blowup
ELayers == FriLayersFrom(ELde, (ec.rem + 1) * ec.blowup, ec.fold)
ESupported == /\ ec.fold ^ ELayers <= 2 ^ ec.log_len
              /\ ec.queries < ELde
              /\ ParamFor(ex, ec.log_len) >= 1

ECase == [example |-> ex.name, hash |-> ec.hash, param |-> ParamFor(ex, ec.log_len),
          opts |-> [queries |-> ec.queries, blowup |-> ec.blowup, grind |-> ec.grind, ext |-> ec.ext, fold |-> ec.fold,
                    rem |-> ec.rem, cbatch |-> ec.cbatch, dbatch |-> ec.dbatch, parts |-> ec.parts, hash_rate |-> ec.hash_rate],
          expect |-> [verdict |-> "accept", fri_layers |-> ELayers, lde_domain |-> ELde, trace_len |-> 2 ^ ec.log_len,
                      wrong_inputs |-> "reject"]]
EEmit == (ephase = "done" /\ ESupported) => PrintT(<<"EXAMPLE", ToJson(ECase)>>)
=============================================================================
