SPECIFICATION ESpec
CONSTANTS MaxLogLen = 3  MaxWidth = 1  MaxGrind = 0
  FieldHashes <- FHAll  Boundary <- BoundaryList
INVARIANT EEmit
CHECK_DEADLOCK FALSE
