SPECIFICATION Spec
CONSTANTS Components <- AllComponents  Disabled <- None
INVARIANT Binding HonestAccepted Order
CHECK_DEADLOCK FALSE
