SPECIFICATION Spec
CONSTANTS Components <- AllComponents  Disabled <- OffMain
INVARIANT Binding HonestAccepted Order
CHECK_DEADLOCK FALSE
