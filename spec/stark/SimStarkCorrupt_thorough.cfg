SPECIFICATION CSpec
CONSTANTS MaxLogLen = 8  MaxWidth = 8  MaxGrind = 6
  FieldHashes <- FHAll  Boundary <- BoundaryList
INVARIANT EmitCorrupt
CHECK_DEADLOCK FALSE
