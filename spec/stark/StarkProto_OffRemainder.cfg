SPECIFICATION Spec
CONSTANTS Components <- AllComponents  Disabled <- OffRemainder
INVARIANT Binding HonestAccepted Order
CHECK_DEADLOCK FALSE
