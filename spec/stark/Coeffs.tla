------------------------------- MODULE Coeffs -------------------------------
(* Random-linear-combination coefficients of the STARK protocol (C02 soundness argument, C03 schedule).

   The verifier's out-of-domain check rejects a false statement only because the constraint
   composition is a RANDOM linear combination of the individual constraint quotients: if the
   quotient vector q = (q_1 .. q_n) (transition constraints first, boundary constraints after) is not
   a vector of polynomials of the right degree, then  sum_i coef_i * q_i  must fail to be one for all
   but a negligible fraction of the verifier's challenges.  That is a property of the FUNCTION from the
   drawn challenges to the coefficient vector, which this module states:

     linear      n draws,  coef_i = draw_i
     algebraic   1 draw a, coef_i = a^(i-1)              over ALL constraints (transition and boundary
     horner      1 draw a, coef_i = a^(n-i)              share ONE series, hence pairwise distinct powers)

   and the same three functions for the DEEP composition coefficients (trace columns first, constraint
   composition columns after).  The auxiliary random elements of a multi-segment AIR are `rands`
   independent draws, in order (a randomized AIR compresses a row as r_0 x + r_1 y + ..: equal elements
   would not tell (x, y) from (y, x)).

   Design level (MCCoeffsDesign.cfg): over a small prime field TLC checks exhaustively the
   Schwartz-Zippel bound that the soundness argument uses -- for EVERY non-zero vector c in F^n the
   number of challenges that make  sum_i coef_i * c_i = 0  is at most n-1 (algebraic / horner), and
   exactly P^(n-1) of the P^n draw tuples (linear) -- and that a "one series per constraint set"
   variant violates it (some non-zero c is cancelled by EVERY challenge), so the invariant
   discriminates.

   Binding (MCCoeffs.cfg): for every configuration of the C01/C03/C06 configuration lists, every pair of
   batching methods and every extension degree, TLC computes the complete expected coefficient vectors
   over the toy field F_40961 (and its quadratic / cubic extension) from scripted draws; the real
   Air::get_constraint_composition_coefficients / get_deep_composition_coefficients are run on the
   same AIR description with a scripted coin and must return exactly these vectors and consume exactly
   this many draws. *)
EXTENDS MCStarkCfg, FieldP

NT(c) == Len(c.extra) + c.width + AuxWidth(c)        \* transition constraints (main, then auxiliary)
NB(c) == Len(c.asserts) + AuxWidth(c)                \* boundary constraints (one assertion per aux column)
TW(c) == c.width + AuxWidth(c)                       \* trace columns

RECURSIVE PowerSeriesFrom(_, _, _, _)
PowerSeriesFrom(P, a, cur, n) == IF n = 0 THEN <<>> ELSE <<cur>> \o PowerSeriesFrom(P, a, EMul(P, cur, a), n - 1)
PowerSeries(P, a, n) == PowerSeriesFrom(P, a, EOne(Len(a)), n)
Rev(s) == [i \in 1..Len(s) |-> s[Len(s) + 1 - i]]

\* method 0 = linear, 1 = algebraic, 2 = horner
DrawsUsed(m, n) == IF m = 0 THEN n ELSE 1
CoeffVector(P, m, n, draws) ==
  CASE m = 0 -> SubSeq(draws, 1, n)
    [] m = 1 -> PowerSeries(P, draws[1], n)
    [] m = 2 -> Rev(PowerSeries(P, draws[1], n))

Split(v, k) == [first |-> SubSeq(v, 1, k), rest |-> SubSeq(v, k + 1, Len(v))]

\* scripted draws: deterministic, include 0 and 1 as first draws of some cases
DrawAt(P, d, seed, k) == [i \in 1..d |-> CASE seed % 7 = 0 /\ k = 1 -> 0
                                          [] seed % 7 = 1 /\ k = 1 -> IF i = 1 THEN 1 ELSE 0
                                          [] OTHER -> (seed * 7919 + k * 104729 + i * 1299709 + 17) % P]
Draws(P, d, seed, n) == [k \in 1..n |-> DrawAt(P, d, seed, k)]

CoeffCase(P, c, ext, cb, db, seed) ==
  LET ncc   == NT(c) + NB(c)
      ndeep == TW(c) + CompositionColumns(c)
      dcc   == Draws(P, ext, seed, DrawsUsed(cb, ncc))
      ddeep == Draws(P, ext, seed + 1, DrawsUsed(db, ndeep))
      vcc   == Split(CoeffVector(P, cb, ncc, dcc), NT(c))
      vdeep == Split(CoeffVector(P, db, ndeep, ddeep), TW(c))
      \* auxiliary random elements: as many INDEPENDENT draws as the auxiliary segment declares, in order
      nrand == IF HasAux(c) THEN c.aux[1].rands ELSE 0
      daux  == Draws(P, ext, seed + 2, nrand)
  IN [desc |-> DescJson(c), field |-> P, ext |-> ext, cbatch |-> cb, dbatch |-> db, blowup |-> c.blowup,
      cc_draws |-> dcc, deep_draws |-> ddeep, aux_draws |-> daux,
      expect |-> [aux_rands |-> daux, aux_used |-> nrand,
                  transition |-> vcc.first, boundary |-> vcc.rest, cc_used |-> Len(dcc),
                  trace |-> vdeep.first, constraints |-> vdeep.rest, deep_used |-> Len(ddeep),
                  \* must agree with the schedule Transcript.tla uses
                  ncc |-> NumConstraintCoeffDraws([c EXCEPT !.cbatch = cb]),
                  ndeep |-> NumDeepCoeffDraws([c EXCEPT !.dbatch = db])]]

\* configurations small enough for the toy field's LDE domain
Fits(P, c) == Lde(c) <= 2 ^ (TwoAdic(P) - 1)
AllCfgs == BoundaryList \o AttackList \o DetList
CoeffP == 40961

ScheduleAgrees ==
  (phase = "field") =>
  \A i \in 1..Len(AllCfgs) : \A m \in 0..2 :
     LET c == AllCfgs[i] IN
       /\ DrawsUsed(m, NT(c) + NB(c)) = NumConstraintCoeffDraws([c EXCEPT !.cbatch = m])
       /\ DrawsUsed(m, TW(c) + CompositionColumns(c)) = NumDeepCoeffDraws([c EXCEPT !.dbatch = m])

EmitCoeffs ==
  (phase = "field") =>
    \A i \in 1..Len(AllCfgs) :
      Fits(CoeffP, AllCfgs[i]) =>
        \A ext \in 1..3 : \A m \in 0..2 :
          \* constraint method m paired with DEEP method (m + ext) % 3: all 9 pairs over the 3 degrees
          PrintT(<<"COEFFS", ToJson(CoeffCase(CoeffP, AllCfgs[i], ext, m, (m + ext) % 3, i * 3 + m))>>)

(***************************************************************************)
(* Design level: the Schwartz-Zippel bound, exhaustively over F_DP^n       *)
(***************************************************************************)
DP == 7
DF == 0..(DP - 1)
Vectors(n) == [1..n -> DF]
Dot(v, c) == LET RECURSIVE S(_) S(i) == IF i = 0 THEN 0 ELSE (S(i - 1) + v[i][1] * c[i]) % DP IN S(Len(v))
NonZero(c) == \E i \in DOMAIN c : c[i] # 0

SingleChallengeBound(m, n) ==
  \A c \in Vectors(n) : NonZero(c) =>
     Cardinality({a \in DF : Dot(CoeffVector(DP, m, n, << <<a>> >>), c) = 0}) <= n - 1
LinearBound(n) ==
  \A c \in Vectors(n) : NonZero(c) =>
     Cardinality({d \in Vectors(n) : Dot([k \in 1..n |-> <<d[k]>>], c) = 0}) = DP ^ (n - 1)
SoundBatching ==
  (phase = "field") =>
     /\ \A n \in 1..4 : SingleChallengeBound(1, n) /\ SingleChallengeBound(2, n)
     /\ \A n \in 1..3 : LinearBound(n)

\* negative control: one power series per constraint set (both starting at 1), either from the same or
\* from two independent challenges, lets the vector (1, 0, .., -1, 0, ..) through for EVERY challenge
SplitSeries(nt, nb, a, b) == PowerSeries(DP, <<a>>, nt) \o PowerSeries(DP, <<b>>, nb)
SplitSeriesUnsound ==
  \E c \in Vectors(4) : NonZero(c) /\ \A a, b \in DF : Dot(SplitSeries(2, 2, a, b), c) = 0
ASSUME SplitSeriesUnsound
=============================================================================
