------------------------------ MODULE StarkCfg ------------------------------
(* The configuration space of the STARK protocol as winterfell exposes it, the predicate
   Supported(cfg) transcribed from the constructors' assertions and the FRI schedule feasibility
   rules, the schedule quantities prover and verifier must agree on, and a generator that builds
   configurations component by component (one nondeterministic choice per step, so that
   `tlc -simulate` samples the product space uniformly per component) and emits each completed,
   supported configuration with the quantities the specification predicts for it:
     verdict = "accept" (C01: honest proof of a satisfied instance verifies),
     fri_layers, remainder_len, lde_domain.
   The AIR part of a configuration is a description of spec/air/AirFamily.tla. *)
EXTENDS Integers, Sequences, FiniteSets, TLC, Json, AirFamily

CONSTANTS MaxLogLen,      \* trace lengths 2^3 .. 2^MaxLogLen
          MaxWidth,
          MaxGrind,
          FieldHashes,    \* set of <<field, hash>> pairs allowed
          Boundary        \* sequence of fixed boundary configurations (possibly empty)

VARIABLES cfg, phase
vars == <<cfg, phase>>

Pow2s(lo, hi) == {2 ^ k : k \in lo..hi}
Log2(n) == CHOOSE k \in 0..40 : 2 ^ k = n
RECURSIVE NextPow2From(_, _)
NextPow2From(n, p) == IF p >= n THEN p ELSE NextPow2From(n, 2 * p)
NextPow2(n) == NextPow2From(n, 1)
Max(a, b) == IF a > b THEN a ELSE b
CeilDiv(a, b) == (a + b - 1) \div b

TwoAdicityOf(f) == CASE f = "f64" -> 32 [] f = "f62" -> 39 [] f = "f128" -> 40
                     [] f = "t257" -> 8 [] f = "t40961" -> 13
\* extension degrees the field supports in a full STARK run of the harness (the cubic extension of
\* f128 is not supported by winterfell; toy fields run without extension, see DESIGN 4-F)
\* largest admissible log2 of the LDE domain: the offset coset g*H must be disjoint from the subgroup H,
\* which fails for F_257 when H is the whole multiplicative group (257 - 1 = 2^8)
MaxLdeLog(f) == IF f = "t257" THEN 7 ELSE TwoAdicityOf(f)
ExtsOf(f) == CASE f \in {"f64", "f62"} -> {1, 2, 3} [] f = "f128" -> {1, 2} [] OTHER -> {1}

(***************************************************************************)
(* Derived quantities (the schedule); declared degrees are in AirFamily     *)
(***************************************************************************)
L(c) == 2 ^ c.log_len
Lde(c) == L(c) * c.blowup
HasAux(c) == c.aux # <<>>

\* the composition polynomial has degree MaxEvalDegree - (L - exemptions), hence that many + 1
\* coefficients, L per column
CompositionDegree(c) == MaxEvalDegree(c) - (L(c) - c.exemptions)
CompositionColumns(c) == Max(CeilDiv(CompositionDegree(c) + 1, L(c)), 1)

\* FRI: layers are added while the domain is larger than the largest admissible remainder domain
RECURSIVE FriLayersFrom(_, _, _)
FriLayersFrom(dom, maxRem, fold) == IF dom > maxRem THEN 1 + FriLayersFrom(dom \div fold, maxRem, fold) ELSE 0
FriLayers(c) == FriLayersFrom(Lde(c), (c.rem + 1) * c.blowup, c.fold)
RemainderLen(c) == L(c) \div (c.fold ^ FriLayers(c))

\* number of field elements drawn for the constraint composition / DEEP composition coefficients:
\* one per constraint (resp. per column) with linear batching, a single one otherwise
AuxWidth(c) == IF HasAux(c) THEN c.aux[1].width ELSE 0
NumConstraintCoeffDraws(c) ==
  IF c.cbatch = 0 THEN Len(c.extra) + c.width + AuxWidth(c) + Len(c.asserts) + AuxWidth(c) ELSE 1
NumDeepCoeffDraws(c) ==
  IF c.dbatch = 0 THEN c.width + AuxWidth(c) + CompositionColumns(c) ELSE 1

(***************************************************************************)
(* Supported(cfg): every constructor accepts it and the FRI schedule is    *)
(* well formed (conservative: only such configurations are claimed)        *)
(***************************************************************************)
\* degree truncation rule: the number of coefficients L must be divisible by the folding factor at
\* every layer
FriOk(c) == /\ c.fold ^ FriLayers(c) <= L(c)
            /\ Lde(c) \div (c.fold ^ FriLayers(c)) >= 1

\* The prover asserts that the DEEP composition polynomial has degree L - 2, which needs at least one
\* trace column of full degree L - 1; AIRs whose every column is constant or short-periodic by
\* construction are excluded here and exercised separately as a recorded finding (DESIGN 8).
NonDegenerate(c) == \E j \in 1..c.width : c.shapes[j] \notin {"id", "pcol"}

Supported(c) ==
  /\ NonDegenerate(c)
  /\ c.log_len >= 3
  /\ c.log_len + Log2(c.blowup) <= MaxLdeLog(c.field)
  /\ c.blowup >= CeBlowup(c)
  /\ c.ext \in ExtsOf(c.field)
  /\ ExemptionsOk(c)
  /\ FriOk(c)
  /\ c.queries >= 1 /\ c.queries <= 255 /\ c.queries < Lde(c)
  /\ c.width + (IF HasAux(c) THEN c.aux[1].width ELSE 0) <= 255
  /\ \A k \in 1..Len(c.pcyc) : c.pcyc[k] <= L(c)

(***************************************************************************)
(* Assertions: candidates filtered to pairwise disjoint cell sets          *)
(***************************************************************************)
Single(col, step) == [t |-> "single", col |-> col, step |-> step, first |-> 0, stride |-> 0, n |-> 0]
SeqA(col, first, stride, n) == [t |-> "seq", col |-> col, step |-> 0, first |-> first, stride |-> stride, n |-> n]
PerA(col, first, stride) == [t |-> "periodic", col |-> col, step |-> 0, first |-> first, stride |-> stride, n |-> 0]

CellsOf(a, len) == ACells(a, len)
RECURSIVE Disjoint(_, _, _, _, _)
Disjoint(cands, len, i, cells, acc) ==
  IF i > Len(cands) THEN acc
  ELSE LET cs == CellsOf(cands[i], len) IN
       IF cs \cap cells = {} THEN Disjoint(cands, len, i + 1, cells \cup cs, Append(acc, cands[i]))
       ELSE Disjoint(cands, len, i + 1, cells, acc)

\* columns that are periodic by construction (shape "pcol"), 0-based
PColumns(c) == {j - 1 : j \in {k \in 1..c.width : c.shapes[k] = "pcol"}}

(***************************************************************************)
(* Generator                                                               *)
(***************************************************************************)
Empty == [field |-> "f64", hash |-> "blake3_256", ext |-> 1, log_len |-> 3, width |-> 1,
          shapes |-> <<"id">>, pcyc |-> <<>>, init |-> <<1>>, exemptions |-> 1, asserts |-> <<>>,
          aux |-> <<>>, meta |-> <<>>, extra |-> <<>>, blowup |-> 2, fold |-> 2, rem |-> 0, queries |-> 1, grind |-> 0,
          cbatch |-> 0, dbatch |-> 0, parts |-> 1, hash_rate |-> 1, garbage |-> 0]

Init == cfg = Empty /\ phase = "field"

NeedPeriodic(shs) == LET n(j) == ShapePeriodics(shs[j]) IN MaxOver(n, Len(shs), 1)

ChooseField == /\ phase = "field"
               /\ \E fh \in FieldHashes, e \in 1..3 :
                    /\ e \in ExtsOf(fh[1])
                    /\ cfg' = [cfg EXCEPT !.field = fh[1], !.hash = fh[2], !.ext = e]
               /\ phase' = "len"
ChooseLen == /\ phase = "len"
             /\ \E n \in 3..MaxLogLen :
                  /\ n + 1 <= MaxLdeLog(cfg.field)
                  /\ cfg' = [cfg EXCEPT !.log_len = n]
             /\ phase' = "width"
ChooseWidth == /\ phase = "width"
               \* some AIRs state the constraint of 1-2 columns once more, ahead of the others (AirFamily: extra)
               /\ \E w \in 1..MaxWidth, ne \in {0, 0, 1, 2} :
                    \E x1 \in {RandomElement(0..(w - 1))}, x2 \in {RandomElement(0..(w - 1))} :
                      cfg' = [cfg EXCEPT !.width = w, !.shapes = [j \in 1..w |-> "id"],
                                         !.extra = CASE ne = 0 -> <<>> [] ne = 1 -> <<x1>> [] ne = 2 -> <<x1, x2>>]
               /\ phase' = "shapes"
\* one shape per column, chosen column by column (phase "shapes" repeats `width` times using garbage as a counter)
ChooseShape == /\ phase = "shapes"
               /\ \E sh \in Shapes :
                    LET j == cfg.garbage + 1 IN
                    /\ cfg' = [cfg EXCEPT !.shapes[j] = sh, !.garbage = IF j = cfg.width THEN 0 ELSE j]
                    /\ phase' = IF j = cfg.width THEN "periodic" ELSE "shapes"
ChoosePeriodic == /\ phase = "periodic"
                  /\ LET np == NeedPeriodic(cfg.shapes) IN
                     \E c1 \in Pow2s(1, cfg.log_len), c2 \in Pow2s(1, cfg.log_len) :
                        cfg' = [cfg EXCEPT !.pcyc = CASE np = 0 -> <<>> [] np = 1 -> <<c1>> [] np = 2 -> <<c1, c2>>,
                                           !.init = [j \in 1..cfg.width |->
                                                        IF cfg.shapes[j] = "pcol" THEN PerValue(0, c1, c1 - 1)
                                                        ELSE j + 1]]
                  /\ phase' = "exempt"
ChooseExempt == /\ phase = "exempt"
                /\ \E e \in 1..6 : cfg' = [cfg EXCEPT !.exemptions = e]
                /\ phase' = "aux"
ChooseAux == /\ phase = "aux"
             /\ \E aw \in 0..3, r \in 1..2, s \in 0..(cfg.width - 1) :
                  cfg' = [cfg EXCEPT !.aux = IF aw = 0 THEN <<>>
                                             ELSE <<[width |-> aw, rands |-> r,
                                                     src |-> [m \in 1..aw |-> (s + m) % cfg.width]]>>]
             /\ phase' = "asserts"
ChooseAsserts ==
  /\ phase = "asserts"
  /\ LET len == L(cfg) IN
     \* high-cardinality components are drawn with RandomElement (one successor per draw; the
     \* simulator's seeded generator makes the draw reproducible), the others are enumerated
     \E mask \in SUBSET {2, 3, 4, 5}, sstride \in Pow2s(1, cfg.log_len - 1), pmult \in {1, 2} :
     \* (bound through singleton sets: a LET definition would re-evaluate RandomElement at every use)
     \E sc \in {RandomElement(0..(cfg.width - 1))}, st \in {RandomElement(0..(len - 1))},
        sfirst \in {RandomElement(0..3)}, pfirst \in {RandomElement(0..3)} :
       LET pcols == PColumns(cfg)
           pcol == IF pcols = {} THEN 0 ELSE CHOOSE x \in pcols : TRUE
           pstr == IF cfg.pcyc = <<>> THEN 2 ELSE cfg.pcyc[1] * pmult
           cands == <<Single(0, 0)>>
                    \o (IF 2 \in mask THEN <<Single(cfg.width - 1, len - 1)>> ELSE <<>>)
                    \o (IF 3 \in mask THEN <<Single(sc, st)>> ELSE <<>>)
                    \o (IF 4 \in mask /\ sfirst < sstride
                          THEN <<SeqA((sc + 1) % cfg.width, sfirst, sstride, len \div sstride)>> ELSE <<>>)
                    \o (IF 5 \in mask /\ pcols # {} /\ pstr <= len /\ pfirst < pstr
                          THEN <<PerA(pcol, pfirst, pstr)>> ELSE <<>>)
       IN cfg' = [cfg EXCEPT !.asserts = Disjoint(cands, len, 1, {}, <<>>)]
  /\ phase' = "fri"
ChooseFri == /\ phase = "fri"
             /\ \E b \in Pow2s(1, 7), f \in {2, 4, 8, 16}, r \in {2 ^ k - 1 : k \in 0..8} :
                  /\ b >= CeBlowup(cfg)
                  /\ cfg.log_len + Log2(b) <= MaxLdeLog(cfg.field)
                  /\ cfg' = [cfg EXCEPT !.blowup = b, !.fold = f, !.rem = r]
             /\ phase' = "queries"
ChooseQueries == /\ phase = "queries"
                 /\ \E g \in 0..MaxGrind, cb \in 0..2, db \in 0..2 :
                      LET qmax == IF Lde(cfg) - 1 < 255 THEN Lde(cfg) - 1 ELSE 255 IN
                      \E q \in {RandomElement({1, 2, qmax} \cup {RandomElement(1..qmax)})} :
                      /\ q < Lde(cfg)
                      /\ cfg' = [cfg EXCEPT !.queries = q, !.grind = g, !.cbatch = cb, !.dbatch = db]
                 /\ phase' = "parts"
ChooseParts == /\ phase = "parts"
               /\ \E p \in 1..16, hr \in {1, 2, 3, 4, 7, 8, 12, 16, 64, 255}, gb \in 0..3 :
                    cfg' = [cfg EXCEPT !.parts = p, !.hash_rate = hr, !.garbage = gb * 7919]
               /\ phase' = "final"
\* a deterministic last step: in simulation mode TLC evaluates invariants on every candidate successor,
\* so the emitting state must be the only successor of its predecessor
Done == phase = "final" /\ phase' = "done" /\ UNCHANGED cfg

Next == ChooseField \/ ChooseLen \/ ChooseWidth \/ ChooseShape \/ ChoosePeriodic \/ ChooseExempt
        \/ ChooseAux \/ ChooseAsserts \/ ChooseFri \/ ChooseQueries \/ ChooseParts \/ Done
Spec == Init /\ [][Next]_vars

(***************************************************************************)
(* Emission                                                                *)
(***************************************************************************)
CaseOf(c) ==
  [desc |-> DescJson(c),
   opts |-> [queries |-> c.queries, blowup |-> c.blowup, grind |-> c.grind, ext |-> c.ext, fold |-> c.fold,
             rem |-> c.rem, cbatch |-> c.cbatch, dbatch |-> c.dbatch, parts |-> c.parts, hash_rate |-> c.hash_rate],
   field |-> c.field, hash |-> c.hash, garbage |-> c.garbage,
   expect |-> [verdict |-> "accept", fri_layers |-> FriLayers(c), remainder_len |-> RemainderLen(c),
               lde_domain |-> Lde(c), comp_columns |-> CompositionColumns(c),
               \* public-coin schedule (see Transcript.tla)
               aux_rands |-> IF HasAux(c) THEN c.aux[1].rands ELSE 0,
               ncc |-> NumConstraintCoeffDraws(c), ndeep |-> NumDeepCoeffDraws(c)]]

\* printed once per completed supported configuration (invariant that is always TRUE)
EmitDone == (phase = "done" /\ Supported(cfg)) => PrintT(<<"REPLAY", ToJson(CaseOf(cfg))>>)

\* fixed boundary configurations: every one must be Supported (checked), and is emitted
BoundaryOk == \A i \in 1..Len(Boundary) : Supported(Boundary[i])
\* (state-level on purpose: TLC pre-evaluates constant-level definitions of every module it loads, which
\* would print the list in every run)
EmitBoundary == (phase = "field") => \A i \in 1..Len(Boundary) : PrintT(<<"BOUNDARY", ToJson(CaseOf(Boundary[i]))>>)

\* design-level facts about the schedule, checked on every completed supported configuration
ScheduleSane ==
  (phase = "done" /\ Supported(cfg)) =>
     /\ RemainderLen(cfg) >= 1
     /\ RemainderLen(cfg) * cfg.blowup = Lde(cfg) \div (cfg.fold ^ FriLayers(cfg))
     /\ RemainderLen(cfg) <= cfg.rem + 1 \/ FriLayers(cfg) = 0
     /\ CompositionColumns(cfg) * L(cfg) >= CompositionDegree(cfg) + 1     \* the columns hold the polynomial
     /\ CompositionDegree(cfg) < L(cfg) * CeBlowup(cfg)                    \* ... and the CE domain determines it
=============================================================================
