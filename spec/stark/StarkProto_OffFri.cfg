SPECIFICATION Spec
CONSTANTS Components <- AllComponents  Disabled <- OffFri
INVARIANT Binding HonestAccepted Order
CHECK_DEADLOCK FALSE
