SPECIFICATION BSpec
CONSTANTS MaxLogLen = 3  MaxWidth = 1  MaxGrind = 0
  FieldHashes <- FHAll  Boundary <- BoundaryList
INVARIANT DetGridOk EmitDetGrid
CHECK_DEADLOCK FALSE
