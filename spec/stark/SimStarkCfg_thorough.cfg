SPECIFICATION Spec
CONSTANTS MaxLogLen = 9  MaxWidth = 12  MaxGrind = 10
  FieldHashes <- FHAll  Boundary <- BoundaryList
INVARIANT EmitDone ScheduleSane
CHECK_DEADLOCK FALSE
