SPECIFICATION Spec
CONSTANTS Components <- AllComponents  Disabled <- OffConstraints
INVARIANT Binding HonestAccepted Order
CHECK_DEADLOCK FALSE
