------------------------------ MODULE Transcript ------------------------------
(* C03 — Fiat-Shamir binding of the public-coin transcript (trace validation).
   Each record is one proving + verifying run of the real code with a recording random coin on both
   sides:  [sched, commitments, prover, verifier]
     sched        the schedule the specification (StarkCfg.tla) computed for the configuration:
                  aux (0/1), rands, ncc, ndeep, layers, queries, lde
     commitments  the commitment digests carried by the proof, in order:
                  main trace, [aux trace], constraint evaluations, FRI layer 1..k, remainder
     prover / verifier   abstract coin events [e, n, d]: new | reseed(d) | draw(n) | lz(n) | ints(n, d=domain)
   The specification states the protocol's challenge schedule: every commitment is absorbed into the
   coin BEFORE the next challenge is drawn, in particular every FRI layer commitment before its folding
   challenge and the remainder commitment before the query positions; prover and verifier absorb the
   same out-of-domain digest. A commitment that is never absorbed, absorbed late, or a challenge drawn
   early would let a prover choose that data after learning the challenge. *)
EXTENDS Integers, Sequences, TLC, Json, IOUtils

Rec == ndJsonDeserialize(IOEnv.TRACE)

VARIABLE l
vars == <<l>>

Ev(e, n, d) == [e |-> e, n |-> n, d |-> d]
ANY == "*"

RECURSIVE FriPart(_, _, _, _)
FriPart(coms, from, k, layers) ==
  IF k > layers THEN <<>>
  ELSE <<Ev("reseed", 0, coms[from + k - 1]), Ev("draw", 1, "")>> \o FriPart(coms, from, k + 1, layers)

\* the schedule, as the sequence of coin events the VERIFIER must perform
Expected(s, coms, side) ==
  LET nseg == 1 + s.aux
      cIdx == nseg + 1                \* index of the constraint commitment
      fIdx == nseg + 2                \* first FRI layer commitment
      rIdx == nseg + 2 + s.layers     \* remainder commitment
  IN <<Ev("new", 0, ANY), Ev("reseed", 0, coms[1])>>
     \* (an auxiliary segment may declare zero random elements: nothing is drawn, its commitment is absorbed all the same)
     \o (IF s.aux = 1 THEN (IF s.rands > 0 THEN <<Ev("draw", s.rands, "")>> ELSE <<>>) \o <<Ev("reseed", 0, coms[2])>> ELSE <<>>)
     \o <<Ev("draw", s.ncc, ""), Ev("reseed", 0, coms[cIdx]), Ev("draw", 1, ""),
          Ev("reseed", 0, ANY) \* digest of the out-of-domain frame
        , Ev("draw", s.ndeep, "")>>
     \o FriPart(coms, fIdx, 1, s.layers)
     \o <<Ev("reseed", 0, coms[rIdx])>>
     \o (IF side = "verifier" THEN <<Ev("draw", 1, "")>> ELSE <<>>)   \* the verifier draws one unused challenge
     \o <<Ev("lz", 0, ANY), Ev("ints", s.queries, ANY)>>

EvMatches(got, exp) ==
  /\ got.e = exp.e
  /\ (exp.e \in {"draw", "ints"} => got.n = exp.n)
  /\ (exp.e = "reseed" /\ exp.d # ANY => got.d = exp.d)
SeqMatches(got, exp) == Len(got) = Len(exp) /\ \A i \in 1..Len(exp) : EvMatches(got[i], exp[i])

\* index of the OOD reseed in a sequence
OodIndex(s) == 2 + (IF s.aux = 1 THEN (IF s.rands > 0 THEN 2 ELSE 1) ELSE 0) + 4

Explains(r) ==
  /\ Len(r.commitments) = 1 + r.sched.aux + 1 + r.sched.layers + 1
  /\ SeqMatches(r.verifier, Expected(r.sched, r.commitments, "verifier"))
  /\ SeqMatches(r.prover, Expected(r.sched, r.commitments, "prover"))
  /\ r.prover[OodIndex(r.sched)].d = r.verifier[OodIndex(r.sched)].d
  /\ r.verifier[Len(r.verifier)].d = r.sched.lde        \* positions are drawn from the LDE domain
  /\ r.prover[Len(r.prover)].d = r.sched.lde
  \* all commitments are pairwise distinct digests in these runs, so "absorbed" is unambiguous
  /\ \A i, j \in 1..Len(r.commitments) : i # j => r.commitments[i] # r.commitments[j]

Init == l = 1
Next == l <= Len(Rec) /\ Explains(Rec[l]) /\ l' = l + 1
Spec == Init /\ [][Next]_vars
Progress == TLCSet(7, l)
Accepted == IF TLCGet(7) = Len(Rec) + 1 THEN TRUE ELSE Print(<<"REJECTED_AT", TLCGet(7)>>, FALSE)
=============================================================================
