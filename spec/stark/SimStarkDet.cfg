\* instances for C06: larger traces (LDE / CE domains on both sides of the 1024 and 8192 thresholds,
\* >= 2 segments of 8 columns), grinding on
SPECIFICATION Spec
CONSTANTS MaxLogLen = 11  MaxWidth = 20  MaxGrind = 8
  FieldHashes <- FHDet  Boundary <- BoundaryList
INVARIANT EmitDone
CHECK_DEADLOCK FALSE
