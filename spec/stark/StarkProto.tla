------------------------------ MODULE StarkProto ------------------------------
(* C03 — the commit / challenge / reveal structure of the non-interactive STARK protocol with ideal
   commitments and an adaptive prover (design-level model checked by TLC).

   Committed components: main trace, auxiliary trace, constraint evaluations, each FRI layer, the FRI
   remainder.  The honest prover commits to value "h" of each component.  After ALL challenges are
   fixed (the last one being the query positions) the prover reveals, per component, one of
     "h"  the committed data,
     "x"  a substitute crafted to satisfy every algebraic check at the queried positions
          (DEEP-neutral row changes, a kernel vector of the folding functional, a remainder
          r + c*prod(x - x_i)) — such substitutes exist whenever the configuration leaves a free
          dimension, and the harness constructs them concretely (harness/stark/src/attack.rs),
     "bad" data that violates an algebraic check.
   The verifier performs, per component, an opening check (revealed = committed) and the algebraic
   checks.  CONSTANT Disabled names the components whose opening check is (hypothetically) missing.

   Checked by TLC:
     Disabled = {}            ->  invariant Binding holds: Accepted => revealed = committed everywhere;
     Disabled = {c}           ->  Binding is violated, the counterexample being the attack on c.
   The second family is what the conformance check replays against the real verifier: each attack must
   be REJECTED by the implementation, i.e. no opening check may be missing there. *)
EXTENDS Integers, Sequences, FiniteSets, TLC

CONSTANTS Components,   \* e.g. {"main", "aux", "constraints", "fri1", "fri2", "remainder"}
          Disabled      \* subset of Components whose opening check is switched off

VARIABLES stage,        \* "commit" -> "challenge" -> "reveal" -> "verdict"
          committed,    \* component -> value committed before the challenges
          challenged,   \* set of components whose commitment has been absorbed into the coin
          positionsFixed,
          revealed,     \* component -> revealed value
          verdict
vars == <<stage, committed, challenged, positionsFixed, revealed, verdict>>

Values == {"h", "x", "bad"}

Init == /\ stage = "commit"
        /\ committed = [c \in Components |-> "h"]
        /\ challenged = {}
        /\ positionsFixed = FALSE
        /\ revealed = [c \in Components |-> "h"]
        /\ verdict = "none"

\* each commitment is absorbed into the public coin, one after the other; the query positions are
\* drawn only after every commitment (the remainder's included) has been absorbed
Absorb(c) == /\ stage = "commit"
             /\ c \notin challenged
             /\ challenged' = challenged \cup {c}
             /\ UNCHANGED <<stage, committed, positionsFixed, revealed, verdict>>
DrawPositions == /\ stage = "commit"
                 /\ challenged = Components
                 /\ positionsFixed' = TRUE
                 /\ stage' = "reveal"
                 /\ UNCHANGED <<committed, challenged, revealed, verdict>>
\* the adaptive prover chooses what to reveal knowing every challenge
Reveal == /\ stage = "reveal"
          /\ revealed' \in [Components -> Values]
          /\ stage' = "verify"
          /\ UNCHANGED <<committed, challenged, positionsFixed, verdict>>
OpeningOk(c) == c \in Disabled \/ revealed[c] = committed[c]
AlgebraOk(c) == revealed[c] # "bad"
Verify == /\ stage = "verify"
          /\ verdict' = IF \A c \in Components : OpeningOk(c) /\ AlgebraOk(c) THEN "accept" ELSE "reject"
          /\ stage' = "done"
          /\ UNCHANGED <<committed, challenged, positionsFixed, revealed>>
Next == (\E c \in Components : Absorb(c)) \/ DrawPositions \/ Reveal \/ Verify
Spec == Init /\ [][Next]_vars

\* C03 at the design level
Binding == verdict = "accept" => \A c \in Components : revealed[c] = committed[c]
\* honest transcripts are accepted (non-vacuity of Binding)
HonestAccepted == (stage = "done" /\ revealed = committed) => verdict = "accept"
\* reveals happen only after the positions are fixed, positions only after every commitment is absorbed
Order == /\ (stage \in {"verify", "done"} => positionsFixed)
         /\ (positionsFixed => challenged = Components)
=============================================================================
