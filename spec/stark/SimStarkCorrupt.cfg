SPECIFICATION CSpec
CONSTANTS MaxLogLen = 6  MaxWidth = 4  MaxGrind = 3
  FieldHashes <- FHAll  Boundary <- BoundaryList
INVARIANT EmitCorrupt
CHECK_DEADLOCK FALSE
