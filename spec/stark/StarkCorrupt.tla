---------------------------- MODULE StarkCorrupt ----------------------------
(* C02: configurations of StarkCfg extended with one corruption of the honest instance (a trace cell,
   row, column, auxiliary cell, or a public input handed to the verifier).  The corruption is
   classified with AirFamily's structural lemma (model-checked against full constraint evaluation in
   spec/air/TraceValidity.tla):
     CertainUnsat -> the statement is false: the real pipeline must reject, or the prover must fail;
     CertainSat   -> the instance is still satisfied: C01's expectation (accept) applies;
     otherwise    -> not emitted. *)
EXTENDS MCStarkCfg

VARIABLE k
cvars == <<cfg, phase, k>>

NoCorr == [kind |-> "none", col |-> 0, row |-> 0, delta |-> 0, idx |-> 0]

RowClasses(c) ==
  LET len == L(c) IN
  {0, 1, len \div 2, len - c.exemptions, len - 1}
    \cup (IF c.exemptions >= 2 THEN {len - c.exemptions + 1} ELSE {})

CorruptionsOf(c) ==
  {[kind |-> "cell", col |-> x, row |-> r, delta |-> dl, idx |-> 0] : x \in 0..(c.width - 1), r \in RowClasses(c), dl \in {1, 2}}
  \cup {[kind |-> "row", col |-> 0, row |-> r, delta |-> 1, idx |-> 0] : r \in RowClasses(c)}
  \cup {[kind |-> "col", col |-> x, row |-> 0, delta |-> 1, idx |-> 0] : x \in 0..(c.width - 1)}
  \cup {[kind |-> "pub", col |-> 0, row |-> 0, delta |-> 1, idx |-> i] : i \in 0..3}
  \cup (IF HasAux(c)
          THEN {[kind |-> "aux", col |-> m, row |-> r, delta |-> 1, idx |-> 0] : m \in 0..(c.aux[1].width - 1), r \in RowClasses(c)}
               \cup {[kind |-> "auxscale", col |-> m, row |-> 0, delta |-> 2, idx |-> 0] : m \in 0..(c.aux[1].width - 1)}
          ELSE {})
Classified(c) == {x \in CorruptionsOf(c) : CertainUnsat(c, x) \/ CertainSat(c, x)}

CInit == Init /\ k = NoCorr
CorruptStep == /\ phase = "done"
               /\ Supported(cfg)
               /\ \E x \in {RandomElement(Classified(cfg))} : k' = x
               /\ phase' = "emit"
               /\ UNCHANGED cfg
CNext == (Next /\ UNCHANGED k) \/ CorruptStep
CSpec == CInit /\ [][CNext]_cvars

CCase == [desc |-> DescJson(cfg),
          opts |-> [queries |-> cfg.queries, blowup |-> cfg.blowup, grind |-> cfg.grind, ext |-> cfg.ext, fold |-> cfg.fold,
                    rem |-> cfg.rem, cbatch |-> cfg.cbatch, dbatch |-> cfg.dbatch, parts |-> cfg.parts, hash_rate |-> cfg.hash_rate],
          field |-> cfg.field, hash |-> cfg.hash, garbage |-> 0, corrupt |-> k,
          expect |-> IF CertainUnsat(cfg, k) THEN "reject" ELSE "accept"]
EmitCorrupt == phase = "emit" => PrintT(<<"REPLAY", ToJson(CCase)>>)

(***************************************************************************)
(* Fixed family: assertion layouts x corruptions of cells that ONLY an      *)
(* assertion constrains (asserted cells in the exempt rows L-e+1 .. L-1):   *)
(* singles, periodic and sequence assertions sharing first steps / strides  *)
(* in every combination, so that every boundary-constraint group and its    *)
(* divisor is exercised on its last instances.                              *)
(***************************************************************************)
LayoutBase(shapes, e, asserts) ==
  [Empty EXCEPT !.width = Len(shapes), !.shapes = shapes, !.init = [j \in 1..Len(shapes) |-> IF shapes[j] = "pcol" THEN PerValue(0, 4, 3) ELSE j + 1],
                !.pcyc = IF \E j \in 1..Len(shapes) : shapes[j] = "pcol" THEN <<4>> ELSE <<>>,
                !.asserts = asserts, !.exemptions = e, !.log_len = 4, !.blowup = 8, !.fold = 4, !.rem = 7, !.queries = 24]
Layouts == <<
  <<Single(0, 0), SeqA(1, 0, 2, 8)>>,                       \* single and sequence sharing the first step
  <<Single(0, 0), SeqA(1, 0, 4, 4), SeqA(2, 0, 2, 8)>>,     \* two strides sharing the first step
  <<Single(0, 1), SeqA(1, 1, 2, 8)>>,
  <<Single(1, 3), SeqA(0, 3, 4, 4), Single(2, 0)>>,
  <<Single(0, 0), PerA(2, 0, 4)>>,                          \* periodic assertion on a periodic column
  <<Single(0, 3), PerA(2, 3, 4), SeqA(1, 3, 4, 4)>>,
  <<SeqA(0, 1, 2, 8), SeqA(1, 1, 4, 4), Single(2, 0)>>,
  <<SeqA(0, 0, 8, 2), SeqA(1, 0, 2, 8)>>,
  \* a periodic assertion with a single instance (stride = trace length) sharing its step — hence its
  \* divisor, in a different group — with a single assertion
  <<Single(0, 15), PerA(2, 15, 16)>>,
  <<Single(1, 15), PerA(2, 15, 16), Single(0, 0)>>,
  <<PerA(2, 14, 16), Single(0, 14), Single(1, 15)>> >>
FixedShapes == <<"sum", "mul2", "pcol">>
FixedCfgs == {LayoutBase(FixedShapes, e, Layouts[i]) : e \in {2, 3, 4}, i \in 1..Len(Layouts)}
\* second fixed family: more transition constraints than columns (duplicated leading constraints), and
\* auxiliary segments with more auxiliary than main assertions; every cell / aux column is corrupted
ExtraCfgs ==
  { [LayoutBase(<<"sum", "mul2", "cube">>, 1, <<Single(0, 0)>>) EXCEPT !.extra = x, !.aux = ax, !.ext = e, !.cbatch = cb]
      : x \in {<<0>>, <<2, 0>>, <<1, 1, 1>>},
        ax \in {<<>>, <<[width |-> 3, rands |-> 1, src |-> <<0, 1, 2>>]>>},
        e \in {1, 2}, cb \in {0, 1} }
ExtraCases ==
  UNION { {<<c, [kind |-> "cell", col |-> j, row |-> r, delta |-> 1, idx |-> 0]>> : j \in 0..(c.width - 1), r \in {1, L(c) \div 2}}
          \cup (IF HasAux(c) THEN {<<c, [kind |-> "auxscale", col |-> m, row |-> 0, delta |-> 2, idx |-> 0]>> : m \in 0..(c.aux[1].width - 1)}
                             \cup {<<c, [kind |-> "aux", col |-> m, row |-> 1, delta |-> 1, idx |-> 0]>> : m \in 0..(c.aux[1].width - 1)}
                 ELSE {})
          : c \in {f \in ExtraCfgs : Supported(f)} }
\* asserted cells in the exempt rows
FreeAsserted(c) == {x \in AllAssertedCells(c) : x[2] > L(c) - c.exemptions}
FixedCases ==
  UNION { {<<c, [kind |-> "cell", col |-> x[1], row |-> x[2], delta |-> 1, idx |-> 0]>> : x \in AllAssertedCells(c)}
          : c \in {f \in FixedCfgs : Supported(f)} }
CaseOfPair(pr) ==
  [desc |-> DescJson(pr[1]),
   opts |-> [queries |-> pr[1].queries, blowup |-> pr[1].blowup, grind |-> 0, ext |-> pr[1].ext, fold |-> pr[1].fold,
             rem |-> pr[1].rem, cbatch |-> pr[1].cbatch, dbatch |-> 0, parts |-> 1, hash_rate |-> 1],
   field |-> "f64", hash |-> "blake3_256", garbage |-> 0, corrupt |-> pr[2],
   expect |-> IF CertainUnsat(pr[1], pr[2]) THEN "reject" ELSE "accept"]
FixedOk == \A pr \in FixedCases : CertainUnsat(pr[1], pr[2])
StopAtInit == phase = "field"
EmitFixed == (phase = "field") => \A pr \in FixedCases : PrintT(<<"FIXED", ToJson(CaseOfPair(pr))>>)
=============================================================================
