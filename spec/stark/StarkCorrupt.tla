---------------------------- MODULE StarkCorrupt ----------------------------
(* C02: configurations of StarkCfg extended with one corruption of the honest instance (a trace cell,
   row, column, auxiliary cell, or a public input handed to the verifier).  The corruption is
   classified with AirFamily's structural lemma (model-checked against full constraint evaluation in
   spec/air/TraceValidity.tla):
     CertainUnsat -> the statement is false: the real pipeline must reject, or the prover must fail;
     CertainSat   -> the instance is still satisfied: C01's expectation (accept) applies;
     otherwise    -> not emitted. *)
EXTENDS MCStarkCfg

VARIABLE k
cvars == <<cfg, phase, k>>

NoCorr == [kind |-> "none", col |-> 0, row |-> 0, delta |-> 0, idx |-> 0]

RowClasses(c) ==
  LET len == L(c) IN
  {0, 1, len \div 2, len - c.exemptions, len - 1}
    \cup (IF c.exemptions >= 2 THEN {len - c.exemptions + 1} ELSE {})

CorruptionsOf(c) ==
  {[kind |-> "cell", col |-> x, row |-> r, delta |-> dl, idx |-> 0] : x \in 0..(c.width - 1), r \in RowClasses(c), dl \in {1, 2}}
  \cup {[kind |-> "row", col |-> 0, row |-> r, delta |-> 1, idx |-> 0] : r \in RowClasses(c)}
  \cup {[kind |-> "col", col |-> x, row |-> 0, delta |-> 1, idx |-> 0] : x \in 0..(c.width - 1)}
  \cup {[kind |-> "pub", col |-> 0, row |-> 0, delta |-> 1, idx |-> i] : i \in 0..3}
  \cup (IF HasAux(c)
          THEN {[kind |-> "aux", col |-> m, row |-> r, delta |-> 1, idx |-> 0] : m \in 0..(c.aux[1].width - 1), r \in RowClasses(c)}
          ELSE {})
Classified(c) == {x \in CorruptionsOf(c) : CertainUnsat(c, x) \/ CertainSat(c, x)}

CInit == Init /\ k = NoCorr
CorruptStep == /\ phase = "done"
               /\ Supported(cfg)
               /\ \E x \in {RandomElement(Classified(cfg))} : k' = x
               /\ phase' = "emit"
               /\ UNCHANGED cfg
CNext == (Next /\ UNCHANGED k) \/ CorruptStep
CSpec == CInit /\ [][CNext]_cvars

CCase == [desc |-> DescJson(cfg),
          opts |-> [queries |-> cfg.queries, blowup |-> cfg.blowup, grind |-> cfg.grind, ext |-> cfg.ext, fold |-> cfg.fold,
                    rem |-> cfg.rem, cbatch |-> cfg.cbatch, dbatch |-> cfg.dbatch, parts |-> cfg.parts, hash_rate |-> cfg.hash_rate],
          field |-> cfg.field, hash |-> cfg.hash, garbage |-> 0, corrupt |-> k,
          expect |-> IF CertainUnsat(cfg, k) THEN "reject" ELSE "accept"]
EmitCorrupt == phase = "emit" => PrintT(<<"REPLAY", ToJson(CCase)>>)
=============================================================================
