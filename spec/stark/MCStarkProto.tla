---- MODULE MCStarkProto ----
EXTENDS StarkProto
AllComponents == {"main", "aux", "constraints", "fri1", "fri2", "remainder"}
None == {}
OffMain == {"main"}
OffAux == {"aux"}
OffConstraints == {"constraints"}
OffFri == {"fri1"}
OffRemainder == {"remainder"}
====
