----------------------------- MODULE MCStarkCfg -----------------------------
EXTENDS StarkCfg

FHAll == { <<"f64", "blake3_256">>, <<"f64", "blake3_192">>, <<"f64", "sha3_256">>, <<"f64", "rp64_256">>,
           <<"f64", "rpjive64_256">>, <<"f62", "blake3_256">>, <<"f62", "sha3_256">>, <<"f62", "rp62_248">>,
           <<"f128", "blake3_256">>, <<"f128", "blake3_192">>, <<"f128", "sha3_256">> }
\* Toy fields are not used for full protocol runs with the default random coin: without a field
\* extension the out-of-domain point collides with the LDE domain with probability ~ |domain| / P,
\* which makes honest proofs fail legitimately (DESIGN 4-F).

FHDet == { <<"f64", "blake3_256">>, <<"f64", "rp64_256">>, <<"f128", "blake3_256">>, <<"f62", "rp62_248">> }

A0 == <<Single(0, 0)>>
\* Boundary configurations (DESIGN 7/C01): extremes of every option
B(width, shapes) == [Empty EXCEPT !.width = width, !.shapes = shapes, !.init = [j \in 1..width |-> j + 1],
                                  !.asserts = A0, !.blowup = 8, !.fold = 4, !.rem = 7, !.queries = 20]
Wide(w) == [j \in 1..w |-> IF j % 3 = 0 THEN "mul2" ELSE IF j % 3 = 1 THEN "sum" ELSE "id"]
BoundaryList == <<
   \* 1 query and 255 queries over a domain large enough that all positions may be distinct
   [B(2, <<"sum", "mul2">>) EXCEPT !.queries = 1],
   [B(2, <<"sum", "mul2">>) EXCEPT !.queries = 255, !.log_len = 10, !.blowup = 64],
   [B(2, <<"sum", "mul2">>) EXCEPT !.queries = 255, !.log_len = 13, !.blowup = 8, !.field = "f128"],
   \* widest trace
   [B(255, Wide(255)) EXCEPT !.log_len = 3],
   [B(200, Wide(200)) EXCEPT !.log_len = 3, !.aux = <<[width |-> 55, rands |-> 2, src |-> [m \in 1..55 |-> m]]>>, !.ext = 2],
   \* partitions: extremes of both parameters
   [B(20, Wide(20)) EXCEPT !.parts = 16, !.hash_rate = 1],
   [B(20, Wide(20)) EXCEPT !.parts = 16, !.hash_rate = 255],
   [B(20, Wide(20)) EXCEPT !.parts = 2, !.hash_rate = 8, !.hash = "rp64_256", !.ext = 3],
   [B(20, Wide(20)) EXCEPT !.parts = 3, !.hash_rate = 4, !.field = "f62", !.hash = "rp62_248", !.ext = 2],
   \* blowup extremes
   [B(2, <<"sum", "id">>) EXCEPT !.blowup = 2, !.fold = 2, !.rem = 0, !.log_len = 5],
   [B(2, <<"sum", "mul2">>) EXCEPT !.blowup = 128, !.fold = 16, !.rem = 255, !.log_len = 10],
   \* every folding factor with the smallest and the largest admissible remainder
   [B(1, <<"sum">>) EXCEPT !.blowup = 2, !.fold = 2, !.rem = 0, !.log_len = 5],
   [B(1, <<"sum">>) EXCEPT !.blowup = 4, !.fold = 8, !.rem = 0, !.log_len = 6],
   [B(1, <<"sum">>) EXCEPT !.blowup = 4, !.fold = 16, !.rem = 0, !.log_len = 8],
   [B(1, <<"sum">>) EXCEPT !.blowup = 4, !.fold = 2, !.rem = 255, !.log_len = 9],
   [B(1, <<"sum">>) EXCEPT !.blowup = 4, !.fold = 4, !.rem = 7, !.log_len = 3],     \* no FRI layer at all
   \* grinding
   [B(2, <<"sum", "mul2">>) EXCEPT !.grind = 12],
   [B(2, <<"sum", "mul2">>) EXCEPT !.grind = 16, !.hash = "rp64_256"],
   \* multiple composition columns and exemptions 1 .. base degree + 1
   [B(2, <<"d5", "id">>) EXCEPT !.exemptions = 1],
   [B(2, <<"d5", "id">>) EXCEPT !.exemptions = 4, !.log_len = 4],
   [B(2, <<"mul2", "id">>) EXCEPT !.exemptions = 2],          \* degree = L exactly
   [B(2, <<"mul2", "id">>) EXCEPT !.exemptions = 3],
   [B(2, <<"cube", "id">>) EXCEPT !.exemptions = 2, !.log_len = 5],
   \* long sequence assertions (>= 64 values), both strides
   [B(2, <<"sum", "mul2">>) EXCEPT !.log_len = 8, !.asserts = <<SeqA(0, 1, 2, 128), SeqA(1, 0, 4, 64), Single(0, 0)>>],
   [B(2, <<"sum", "mul2">>) EXCEPT !.log_len = 10, !.asserts = <<SeqA(1, 3, 4, 256), Single(0, 0)>>, !.ext = 2],
   \* periodic columns with the shortest and the longest cycle, periodic assertion
   [B(2, <<"pcol", "mul2per2">>) EXCEPT !.pcyc = <<2, 16>>, !.log_len = 4, !.init = <<PerValue(0, 2, 1), 3>>,
                                        !.asserts = <<PerA(0, 1, 2), Single(1, 0)>>],
   [B(2, <<"pcol", "per">>) EXCEPT !.pcyc = <<8>>, !.log_len = 3, !.init = <<PerValue(0, 8, 7), 3>>,
                                   !.asserts = <<PerA(0, 0, 8), Single(1, 7)>>],
   [B(2, <<"pcol", "per">>) EXCEPT !.pcyc = <<8>>, !.log_len = 3, !.init = <<PerValue(0, 8, 7), 3>>,
                                   !.asserts = <<PerA(0, 7, 8), Single(1, 7)>>, !.exemptions = 2],
   \* auxiliary columns asserted at a step no main assertion covers (a divisor group of their own): geometric
   \* auxiliary columns aux[m][i] = (m + 2)^i, whose value at every step is public
   [B(2, <<"sum", "mul2">>) EXCEPT !.aux = <<[width |-> 2, rands |-> 1, src |-> <<0, 1>>, geo |-> TRUE, astep |-> 7]>>],
   [B(2, <<"sum", "mul2">>) EXCEPT !.aux = <<[width |-> 3, rands |-> 2, src |-> <<0, 1, 0>>, geo |-> TRUE, astep |-> 13]>>,
                                  !.log_len = 5, !.ext = 2, !.asserts = <<Single(0, 0), Single(1, 31)>>],
   [B(3, <<"sum", "mul2", "cube">>) EXCEPT !.aux = <<[width |-> 1, rands |-> 1, src |-> <<2>>, geo |-> TRUE, astep |-> 1]>>,
                                  !.log_len = 4, !.ext = 3, !.asserts = <<SeqA(0, 0, 4, 4)>>],
   \* all batching methods on both sides
   [B(2, <<"sum", "mul2">>) EXCEPT !.cbatch = 1, !.dbatch = 2, !.ext = 2],
   [B(2, <<"sum", "mul2">>) EXCEPT !.cbatch = 2, !.dbatch = 1, !.ext = 3],
   [B(2, <<"sum", "mul2">>) EXCEPT !.cbatch = 2, !.dbatch = 2, !.field = "f128", !.ext = 2,
                                  !.aux = <<[width |-> 1, rands |-> 1, src |-> <<0>>]>>],
   \* metadata of maximal length
   [B(1, <<"sum">>) EXCEPT !.meta = [i \in 1..65535 |-> i % 251]]
>>

\* Configurations for the adaptive-substitution attacks of C03 (spec/stark/StarkProto.tla): linear DEEP
\* batching (one coefficient per column), few queries, >= 2 main / auxiliary / composition columns,
\* folding >= 4 and a remainder with spare degree, so that every substitute of attack.rs exists.
Aux2 == <<[width |-> 2, rands |-> 1, src |-> <<0, 1>>]>>
Aux3 == <<[width |-> 3, rands |-> 2, src |-> <<1, 0, 1>>]>>
AT(shapes, aux) == [Empty EXCEPT !.width = Len(shapes), !.shapes = shapes, !.init = [j \in 1..Len(shapes) |-> j + 1],
                                !.asserts = A0, !.aux = aux, !.log_len = 6, !.blowup = 8, !.fold = 4, !.rem = 15,
                                !.queries = 3, !.dbatch = 0]
AttackList == <<
   AT(<<"sum", "mul2", "cube">>, Aux2),
   [AT(<<"sum", "mul2", "cube">>, Aux2) EXCEPT !.ext = 2],
   [AT(<<"sum", "mul2", "cube">>, Aux2) EXCEPT !.ext = 3, !.queries = 2, !.fold = 8, !.cbatch = 1],
   [AT(<<"sum", "mul2", "cube">>, Aux2) EXCEPT !.field = "f128", !.queries = 5, !.rem = 7, !.log_len = 7],
   [AT(<<"sum", "mul2", "cube">>, Aux2) EXCEPT !.field = "f128", !.ext = 2, !.fold = 16, !.rem = 31, !.log_len = 8, !.cbatch = 2],
   [AT(<<"d5", "sum">>, Aux3) EXCEPT !.hash = "rp64_256", !.queries = 1],
   [AT(<<"d5", "sum">>, Aux3) EXCEPT !.hash = "rp64_256", !.ext = 2, !.queries = 4, !.blowup = 16, !.rem = 15],
   [AT(<<"cube", "mul2", "sum", "id">>, Aux2) EXCEPT !.log_len = 5, !.rem = 7, !.queries = 2, !.grind = 4],
   [AT(<<"cube", "mul2", "sum", "id">>, Aux2) EXCEPT !.log_len = 9, !.fold = 4, !.rem = 31, !.queries = 6, !.ext = 2, !.exemptions = 2],
   \* no FRI layer at all (the LDE domain fits the remainder): the remainder is the only FRI data
   [AT(<<"sum", "mul2", "cube">>, Aux2) EXCEPT !.log_len = 4, !.rem = 15, !.queries = 3],
   [AT(<<"sum", "mul2", "cube">>, Aux2) EXCEPT !.log_len = 3, !.rem = 7, !.queries = 2, !.ext = 2, !.field = "f128"],
   [AT(<<"d5", "sum">>, Aux3) EXCEPT !.log_len = 5, !.rem = 31, !.queries = 4, !.hash = "rp64_256", !.blowup = 16],
   \* an auxiliary segment that declares ZERO random elements (geometric auxiliary columns need none): its
   \* commitment must be absorbed into the transcript all the same
   [AT(<<"sum", "mul2", "cube">>, <<[width |-> 2, rands |-> 0, src |-> <<0, 1>>, geo |-> TRUE, astep |-> 5]>>) EXCEPT !.queries = 2],
   [AT(<<"d5", "sum">>, <<[width |-> 3, rands |-> 0, src |-> <<0, 1, 0>>, geo |-> TRUE, astep |-> 0]>>) EXCEPT !.ext = 2, !.hash = "rp64_256"],
   \* partitioned row hashing: widths that are not multiples of the partition size (a short last partition)
   [AT(<<"sum", "mul2", "cube", "sum", "id">>, Aux3) EXCEPT !.parts = 2, !.hash_rate = 1],
   [AT(<<"sum", "mul2", "cube", "sum", "id">>, Aux3) EXCEPT !.parts = 3, !.hash_rate = 2, !.ext = 2],
   [AT(<<"d5", "sum", "mul2", "cube", "sum", "id", "sum">>, Aux3) EXCEPT !.parts = 2, !.hash_rate = 4, !.hash = "rp64_256"],
   [AT(<<"d5", "sum", "mul2">>, Aux2) EXCEPT !.parts = 4, !.hash_rate = 8, !.field = "f128", !.ext = 2]
>>
AttackOk == \A i \in 1..Len(AttackList) : Supported(AttackList[i])
EmitAttack == (phase = "field") => \A i \in 1..Len(AttackList) : PrintT(<<"ATTACK", ToJson(CaseOf(AttackList[i]))>>)

\* Satisfied instances whose trace columns all have degree < L - 1 (constant column): outside Supported
\* because of NonDegenerate, exercised separately (recorded finding, DESIGN 8)
DegenerateList == << [B(1, <<"id">>) EXCEPT !.log_len = 4], [B(2, <<"id", "id">>) EXCEPT !.log_len = 3, !.ext = 2] >>
EmitDegenerate == (phase = "field") => \A i \in 1..Len(DegenerateList) : PrintT(<<"DEGENERATE", ToJson(CaseOf(DegenerateList[i]))>>)

\* Fixed instances for C06 (thread / feature independence): constraint-evaluation domains of exactly
\* 1024 and 8192 elements (the concurrency thresholds of the FFT and of the constraint evaluator), an
\* auxiliary segment, and periodic columns whose cycle exceeds trace_length / threads
DT(shapes, pc, aux, n) == [Empty EXCEPT !.width = Len(shapes), !.shapes = shapes, !.pcyc = pc,
                                  !.init = [j \in 1..Len(shapes) |-> IF shapes[j] = "pcol" THEN PerValue(0, pc[1], pc[1] - 1) ELSE j + 1],
                                  !.asserts = A0, !.aux = aux, !.log_len = n, !.blowup = 8, !.fold = 4, !.rem = 7,
                                  !.queries = 30, !.grind = 4]
DetList == <<
   DT(<<"sum", "mul2">>, <<>>, <<>>, 9),                                   \* ce domain 512 * 2 = 1024
   DT(<<"cube", "mulper", "pcol">>, <<128>>, Aux2, 8),                    \* ce domain 256 * 4 = 1024, aux + periodic
   DT(<<"mulper", "sum", "pcol">>, <<1024>>, Aux2, 11),                   \* ce domain 2048 * 4 = 8192, long cycle
   [DT(<<"per", "mul2">>, <<2048>>, <<[width |-> 1, rands |-> 1, src |-> <<0>>]>>, 12) EXCEPT !.blowup = 4, !.ext = 2],  \* 4096 * 2 = 8192
   \* wide traces: 3 and 5 row-major segments of 8 columns (segment counts that are not powers of two)
   \* over small LDE domains (1024 / 2048 rows), where the matrix transposition is split into batches
   \* single segment, constraint-evaluation domain 4096 * 2 = 8192 (evaluated in fragments), sequence and
   \* periodic assertions (boundary constraints whose value depends on the step)
   [DT(<<"sum", "mul2">>, <<>>, <<>>, 12) EXCEPT !.asserts = <<Single(0, 0), SeqA(1, 1, 4, 1024)>>],
   [DT(<<"pcol", "mul2", "sum">>, <<64>>, <<>>, 12) EXCEPT !.asserts = <<PerA(0, 3, 64), SeqA(2, 0, 2048, 2), Single(1, 4095)>>, !.ext = 2],
   DT(Wide(20), <<>>, <<>>, 7),
   [DT(Wide(40), <<>>, Aux3, 8) EXCEPT !.ext = 2]
>>
\* Thorough tier: a grid of segment counts (widths around the multiples of 8) x LDE sizes around the
\* concurrency thresholds, with an auxiliary segment on every other instance
DetGridSeq == LET ws == <<8, 9, 17, 24, 25, 33>>
                  ls == << <<7, 8>>, <<8, 4>>, <<10, 2>>, <<10, 8>> >>
              IN [k \in 1..(Len(ws) * Len(ls)) |->
                    LET w == ws[((k - 1) % Len(ws)) + 1]
                        l == ls[((k - 1) \div Len(ws)) + 1]
                    IN [DT(Wide(w), <<>>, IF k % 2 = 0 THEN Aux3 ELSE <<>>, l[1]) EXCEPT !.blowup = l[2], !.ext = 1 + ((k % 3) % 2)]]
DetGridOk == \A i \in 1..Len(DetGridSeq) : Supported(DetGridSeq[i])
EmitDetGrid == (phase = "field") => \A i \in 1..Len(DetGridSeq) : PrintT(<<"DETGRID", ToJson(CaseOf(DetGridSeq[i]))>>)
DetOk == \A i \in 1..Len(DetList) : Supported(DetList[i])
EmitDet == (phase = "field") => \A i \in 1..Len(DetList) : PrintT(<<"DET", ToJson(CaseOf(DetList[i]))>>)

BadBoundary == {i \in 1..Len(BoundaryList) : ~Supported(BoundaryList[i])}
ShowBad == (phase = "field") => PrintT(<<"BAD", BadBoundary>>)
BNext == FALSE /\ UNCHANGED vars
BSpec == Init /\ [][BNext]_vars
=============================================================================
