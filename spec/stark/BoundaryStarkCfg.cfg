SPECIFICATION BSpec
CONSTANTS MaxLogLen = 3  MaxWidth = 1  MaxGrind = 0
  FieldHashes <- FHAll  Boundary <- BoundaryList
INVARIANT BoundaryOk EmitBoundary EmitDegenerate
CHECK_DEADLOCK FALSE
