SPECIFICATION CSpec
CONSTANTS MaxLogLen = 3  MaxWidth = 1  MaxGrind = 0
  FieldHashes <- FHAll  Boundary <- BoundaryList
INVARIANT FixedOk EmitFixed
CONSTRAINT StopAtInit
CHECK_DEADLOCK FALSE
